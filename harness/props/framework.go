package props

// Framework: case generation/execution wrapper around rapid, replay, statistics and evidence fragments,
// known-findings protocol.

import (
	"crypto/sha1"
	"encoding/hex"
	"encoding/json"
	"fmt"
	"io/ioutil"
	"os"
	"path/filepath"
	"regexp"
	"runtime/debug"
	"runtime/pprof"
	"sort"
	"strconv"
	"strings"
	"sync"
	"testing"
	"time"

	"pgregory.net/rapid"
)

// B is a byte string that marshals to JSON as a Go-quoted ASCII literal (lossless and readable)
type B []byte

// MarshalJSON implements json.Marshaler
func (b B) MarshalJSON() ([]byte, error) {
	return json.Marshal(strconv.QuoteToASCII(string(b)))
}

// UnmarshalJSON implements json.Unmarshaler
func (b *B) UnmarshalJSON(data []byte) error {
	var s string
	if err := json.Unmarshal(data, &s); err != nil {
		return err
	}
	u, err := strconv.Unquote(s)
	if err != nil {
		return err
	}
	*b = B(u)
	return nil
}

// CaseStats is handed to a case execution to classify it
type CaseStats struct {
	labels     []string
	nontrivial bool
	ntKey      string
	redirects  int
	extra      map[string]int
}

// Label adds a classification label to the case
func (c *CaseStats) Label(l string) { c.labels = append(c.labels, l) }

// Labelf adds a formatted label
func (c *CaseStats) Labelf(f string, a ...interface{}) {
	c.labels = append(c.labels, fmt.Sprintf(f, a...))
}

// Nontrivial marks the case as non-trivial by the property's rule
func (c *CaseStats) Nontrivial() { c.nontrivial = true }

// Count adds n to a named counter
func (c *CaseStats) Count(name string, n int) {
	if c.extra == nil {
		c.extra = map[string]int{}
	}
	c.extra[name] += n
}

// Spec describes one property check
type Spec struct {
	ID    string
	Level string // exploration | fault_enumeration
	Rule  string
	// Gen draws a case (pure data, JSON-serialisable)
	Gen func(t *rapid.T) interface{}
	// New returns a pointer to an empty case for JSON decoding
	New func() interface{}
	// Run executes a case against the real code and judges it; a non-nil error is a property violation.
	// ErrInconclusive-wrapped errors mean the harness could not decide (counted, not a violation).
	Run func(c interface{}, st *CaseStats) error
	// Match maps a failing case to the key of a known finding ("" = not known)
	Match func(c interface{}, err error) string
	// Probes are minimal reproductions of known findings / fixed defects; key -> probe
	Probes map[string]func() (reproduced bool, detail string)
	// Assumptions listed in evidence
	Assumptions []string
	// Engines covered (informational)
	Engines []string
}

// Inconclusive is an error class: the harness could not decide (never a violation)
type Inconclusive struct{ Msg string }

func (e *Inconclusive) Error() string { return "inconclusive: " + e.Msg }

// Inconclusivef builds an Inconclusive error
func Inconclusivef(f string, a ...interface{}) error { return &Inconclusive{Msg: fmt.Sprintf(f, a...)} }

type statsFile struct {
	ID           string            `json:"id"`
	Shard        string            `json:"shard"`
	Seed         uint64            `json:"seed"`
	Requested    int               `json:"requested"`
	Evaluations  int               `json:"evaluations"`
	Nontrivial   []string          `json:"nontrivial_hashes"`
	Labels       map[string]int    `json:"labels"`
	Counters     map[string]int    `json:"counters"`
	Samples      []json.RawMessage `json:"samples"`
	KnownSkipped map[string]int    `json:"known_skipped"`
	Inconclusive int               `json:"inconclusive"`
	Violations   int               `json:"violations"`
	WallS        float64           `json:"wall_s"`
	Rule         string            `json:"rule"`
	Level        string            `json:"level"`
	Assumptions  []string          `json:"assumptions"`
	Engines      []string          `json:"engines"`
	Findings     []string          `json:"known_finding_lines"`
	// Unconfirmed: verdicts that rested on a deadline and did not come back when the case was executed again
	Unconfirmed []string `json:"unconfirmed_deadline_verdicts,omitempty"`
	Exhaustive  bool     `json:"exhaustive,omitempty"`
}

// Collector accumulates statistics of a run
type Collector struct {
	mu    sync.Mutex
	sf    statsFile
	nt    map[string]struct{}
	start time.Time
	spec  *Spec
	test  string
}

func outDir() string {
	d := os.Getenv("VERIF_OUT")
	if d == "" {
		d = filepath.Join(os.TempDir(), "kbverif-out")
	}
	_ = os.MkdirAll(d, 0o755)
	return d
}

func shardName() string {
	s := os.Getenv("VERIF_SHARD")
	if s == "" {
		s = "0"
	}
	return s
}

// EnvInt reads an integer environment variable
func EnvInt(name string, def int) int {
	if v := os.Getenv(name); v != "" {
		if n, err := strconv.Atoi(v); err == nil {
			return n
		}
	}
	return def
}

// EnvStr reads a string environment variable
func EnvStr(name, def string) string {
	if v := os.Getenv(name); v != "" {
		return v
	}
	return def
}

// Thorough reports whether the thorough tier is running
func Thorough() bool { return os.Getenv("VERIF_TIER") == "thorough" }

func newCollector(spec *Spec) *Collector {
	c := &Collector{spec: spec, nt: map[string]struct{}{}, start: time.Now()}
	c.sf.ID = spec.ID
	c.sf.Shard = shardName()
	c.sf.Labels = map[string]int{}
	c.sf.Counters = map[string]int{}
	c.sf.KnownSkipped = map[string]int{}
	c.sf.Rule = spec.Rule
	c.sf.Level = spec.Level
	c.sf.Assumptions = spec.Assumptions
	c.sf.Engines = spec.Engines
	return c
}

func caseHash(js []byte) string {
	h := sha1.Sum(js)
	return hex.EncodeToString(h[:8])
}

func (c *Collector) record(cjs []byte, cs *CaseStats) {
	c.mu.Lock()
	defer c.mu.Unlock()
	c.sf.Evaluations++
	for _, l := range cs.labels {
		c.sf.Labels[l]++
	}
	for k, v := range cs.extra {
		c.sf.Counters[k] += v
	}
	if cs.nontrivial {
		c.sf.Labels["nontrivial"]++
		h := caseHash(cjs)
		if _, ok := c.nt[h]; !ok {
			c.nt[h] = struct{}{}
			// keep the first few non-trivial cases as samples, spaced out
			n := len(c.nt)
			if len(c.sf.Samples) < 4 && (n == 1 || n == 7 || n == 40 || n == 200) {
				c.sf.Samples = append(c.sf.Samples, json.RawMessage(cjs))
			}
		}
	}
}

func (c *Collector) flush() {
	c.mu.Lock()
	defer c.mu.Unlock()
	c.sf.Nontrivial = c.sf.Nontrivial[:0]
	for h := range c.nt {
		c.sf.Nontrivial = append(c.sf.Nontrivial, h)
	}
	sort.Strings(c.sf.Nontrivial)
	c.sf.WallS = time.Since(c.start).Seconds()
	js, _ := json.Marshal(&c.sf)
	p := filepath.Join(outDir(), fmt.Sprintf("%s.%s.stats.json", c.sf.ID, c.sf.Shard))
	_ = ioutil.WriteFile(p, js, 0o644)
}

type violationFile struct {
	ID    string            `json:"property_id"`
	Error string            `json:"error"`
	Case  json.RawMessage   `json:"case"`
	Seed  uint64            `json:"seed"`
	Shard string            `json:"shard"`
	Env   map[string]string `json:"env"`
	Test  string            `json:"test,omitempty"` // the Go test that produced it (a property may have several modes)
}

func relevantEnv() map[string]string {
	out := map[string]string{}
	for _, kv := range os.Environ() {
		if strings.HasPrefix(kv, "VERIF_") && !strings.HasPrefix(kv, "VERIF_OUT") && !strings.HasPrefix(kv, "VERIF_SCRATCH") && !strings.HasPrefix(kv, "VERIF_REPLAY") &&
			!strings.HasPrefix(kv, "VERIF_BIN") && !strings.HasPrefix(kv, "VERIF_SHARD") {
			i := strings.IndexByte(kv, '=')
			out[kv[:i]] = kv[i+1:]
		}
	}
	return out
}

func (c *Collector) saveViolation(cjs []byte, err error) {
	v := violationFile{ID: c.sf.ID, Error: err.Error(), Case: cjs, Seed: c.sf.Seed, Shard: c.sf.Shard, Env: relevantEnv(), Test: c.test}
	js, _ := json.MarshalIndent(&v, "", " ")
	p := filepath.Join(outDir(), fmt.Sprintf("%s.%s.violation.json", c.sf.ID, c.sf.Shard))
	_ = ioutil.WriteFile(p, js, 0o644)
}

// safeRun executes spec.Run converting panics of the code under test into errors
func safeRun(spec *Spec, cse interface{}, cs *CaseStats) (err error) {
	defer func() {
		if r := recover(); r != nil {
			err = fmt.Errorf("panic: %v\n%s", r, debug.Stack())
		}
	}()
	return spec.Run(cse, cs)
}

// KnownFinding is one entry of /verif/known_findings.json
type KnownFinding struct {
	Property string `json:"property"`
	Key      string `json:"key"`
	Status   string `json:"status"` // "finding" or "fixed"
	What     string `json:"what"`
	Commit   string `json:"commit,omitempty"`
	Line     string `json:"line,omitempty"`
}

func loadKnownFindings() []KnownFinding {
	p := os.Getenv("VERIF_KNOWN_FINDINGS")
	if p == "" {
		p = "/verif/known_findings.json"
	}
	data, err := ioutil.ReadFile(p)
	if err != nil {
		return nil
	}
	var wrap struct {
		Findings []KnownFinding `json:"findings"`
	}
	if err := json.Unmarshal(data, &wrap); err != nil {
		return nil
	}
	return wrap.Findings
}

func knownFor(id string) map[string]KnownFinding {
	out := map[string]KnownFinding{}
	for _, f := range loadKnownFindings() {
		if f.Property == id && f.Status == "finding" {
			out[f.Key] = f
		}
	}
	return out
}

// RunProperty is the entry point of every property test
func RunProperty(t *testing.T, spec *Spec) {
	if spec.Level == "" {
		spec.Level = "exploration"
	}
	col := newCollector(spec)
	col.test = t.Name()
	defer col.flush()
	if dump := os.Getenv("VERIF_DUMP_GOROUTINES"); dump != "" {
		defer func() {
			if f, err := os.Create(dump); err == nil {
				_ = pprof.Lookup("goroutine").WriteTo(f, 1)
				_ = f.Close()
			}
		}()
	}
	known := knownFor(spec.ID)

	// replay mode: one saved case, no generator
	if rp := os.Getenv("VERIF_REPLAY"); rp != "" {
		data, err := ioutil.ReadFile(rp)
		if err != nil {
			t.Fatalf("replay: %v", err)
		}
		var vf violationFile
		if err := json.Unmarshal(data, &vf); err != nil {
			t.Fatalf("replay: %v", err)
		}
		var pc struct {
			Probe string `json:"probe"`
		}
		if json.Unmarshal(vf.Case, &pc) == nil && pc.Probe != "" {
			pf := spec.Probes[pc.Probe]
			if pf == nil {
				t.Fatalf("replay: unknown probe %q", pc.Probe)
			}
			if rep, detail := pf(); rep {
				col.sf.Violations++
				col.saveViolation(vf.Case, fmt.Errorf("probe %s reproduces: %s", pc.Probe, detail))
				fmt.Printf("REPLAY reproduces: probe %s: %s\n", pc.Probe, detail)
				t.Fatalf("replay reproduces")
			}
			fmt.Printf("REPLAY passes\n")
			return
		}
		cse := spec.New()
		if err := json.Unmarshal(vf.Case, cse); err != nil {
			t.Fatalf("replay: bad case: %v", err)
		}
		cs := &CaseStats{}
		err = safeRun(spec, cse, cs)
		col.record(vf.Case, cs)
		if err != nil {
			if _, inc := err.(*Inconclusive); inc {
				fmt.Printf("REPLAY inconclusive: %v\n", err)
				return
			}
			col.sf.Violations++
			col.saveViolation(vf.Case, err)
			fmt.Printf("REPLAY reproduces: %v\n", err)
			t.Fatalf("replay reproduces: %v", err)
		}
		fmt.Printf("REPLAY passes\n")
		return
	}

	// probes for listed findings: a probe that still reproduces prints the KNOWN-FINDING line;
	// probes for entries not listed as findings (fixed defects, regression inputs) must not reproduce
	if shardName() == "0" || os.Getenv("VERIF_PROBES") == "1" {
		keys := make([]string, 0, len(spec.Probes))
		for k := range spec.Probes {
			keys = append(keys, k)
		}
		sort.Strings(keys)
		for _, k := range keys {
			rep, detail := func() (r bool, d string) {
				defer func() {
					if p := recover(); p != nil {
						r, d = true, fmt.Sprintf("panic: %v", p)
					}
				}()
				return spec.Probes[k]()
			}()
			col.sf.Labels["probe:"+k]++
			if !rep {
				continue
			}
			if f, ok := known[k]; ok {
				line := fmt.Sprintf("KNOWN-FINDING: property=%s %s [%s]", spec.ID, f.What, k)
				fmt.Println(line)
				col.sf.Findings = append(col.sf.Findings, line)
				continue
			}
			// a regression probe reproduces and is not a listed finding: violation
			cjs, _ := json.Marshal(map[string]string{"probe": k, "detail": detail})
			col.sf.Violations++
			col.saveViolation(cjs, fmt.Errorf("probe %s reproduces: %s", k, detail))
			t.Fatalf("probe %s reproduces: %s", k, detail)
		}
	}
	if spec.Gen == nil {
		return
	}

	rapid.Check(t, func(rt *rapid.T) {
		cse := spec.Gen(rt)
		cjs, jerr := json.Marshal(cse)
		if jerr != nil {
			rt.Fatalf("case does not serialise: %v", jerr)
		}
		cs := &CaseStats{}
		err := safeRun(spec, cse, cs)
		col.record(cjs, cs)
		if err == nil {
			return
		}
		if _, inc := err.(*Inconclusive); !inc && deadlineVerdict(err) {
			// the verdict rests on a deadline ("did not arrive within 15s"): a case is plain data, so it is executed
			// again — a stall caused by the code reproduces, one caused by a starved machine does not. Only a verdict
			// that comes back counts; the others are listed in evidence, never reported as violations.
			first := err
			err = nil
			for i := 0; i < 2; i++ {
				time.Sleep(time.Second)
				if again := safeRun(spec, cse, &CaseStats{}); again != nil {
					if _, inc2 := again.(*Inconclusive); !inc2 {
						err = fmt.Errorf("%v (seen again when the case was re-executed; first: %v)", again, first)
						break
					}
				}
			}
			if err == nil {
				col.mu.Lock()
				col.sf.Inconclusive++
				col.sf.Counters["deadline_verdicts_not_reproduced"]++
				if len(col.sf.Unconfirmed) < 5 {
					col.sf.Unconfirmed = append(col.sf.Unconfirmed, first.Error())
				}
				col.mu.Unlock()
				return
			}
		}
		if _, inc := err.(*Inconclusive); inc {
			col.mu.Lock()
			col.sf.Inconclusive++
			col.mu.Unlock()
			return
		}
		if spec.Match != nil {
			if k := spec.Match(cse, err); k != "" {
				if _, ok := known[k]; ok {
					col.mu.Lock()
					col.sf.KnownSkipped[k]++
					col.mu.Unlock()
					return
				}
			}
		}
		col.mu.Lock()
		col.sf.Violations++
		col.mu.Unlock()
		col.saveViolation(cjs, err)
		col.flush()
		rt.Fatalf("property %s violated: %v\ncase: %s", spec.ID, err, string(cjs))
	})
}

var deadlineRe = regexp.MustCompile(`(?i)stall|stuck|wedged|did not (arrive|drain|return|park|become)|never (ended|arrived|delivered|became|reached)|within \d+ ?s|in \d+ ?s\b|\(\d+s\)|timed? ?out`)

// deadlineVerdict tells whether an oracle's verdict rests on a deadline having passed
func deadlineVerdict(err error) bool { return err != nil && deadlineRe.MatchString(err.Error()) }

// helper generators ------------------------------------------------------------------------------------------

// DrawIntn draws an int in [0,n)
func DrawIntn(t *rapid.T, n int, label string) int {
	if n <= 1 {
		return 0
	}
	return rapid.IntRange(0, n-1).Draw(t, label)
}

// DrawBool draws a bool that is true with probability about pct/100
func DrawBool(t *rapid.T, pct int, label string) bool {
	return rapid.IntRange(0, 99).Draw(t, label) < pct
}

// DrawChoices draws a schedule: n small non-negative ints
func DrawChoices(t *rapid.T, n int, label string) []int {
	return rapid.SliceOfN(rapid.IntRange(0, 5), n, n).Draw(t, label)
}
