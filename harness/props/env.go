package props

// Shared environment: silenced logging, engine constructors, backend life cycle.

import (
	"context"
	"flag"
	"fmt"
	proto "github.com/kubewharf/kubebrain-client/api/v2rpc"
	"github.com/tikv/client-go/v2/tikvrpc"
	"io/ioutil"
	"k8s.io/client-go/tools/leaderelection/resourcelock"
	"math"
	"net/http"
	"os"
	"path/filepath"
	"sync"
	"sync/atomic"
	"time"

	pinglog "github.com/pingcap/log"
	"github.com/tikv/client-go/v2/testutils"
	"github.com/tikv/client-go/v2/tikv"
	"google.golang.org/grpc"
	"k8s.io/klog/v2"

	"github.com/kubewharf/kubebrain/pkg/backend"
	"github.com/kubewharf/kubebrain/pkg/metrics"
	"github.com/kubewharf/kubebrain/pkg/storage"
	ibadger "github.com/kubewharf/kubebrain/pkg/storage/badger"
	imemkv "github.com/kubewharf/kubebrain/pkg/storage/memkv"
	imetrics "github.com/kubewharf/kubebrain/pkg/storage/metrics"
	itikv "github.com/kubewharf/kubebrain/pkg/storage/tikv"
)

func init() {
	fs := flag.NewFlagSet("klog", flag.ContinueOnError)
	klog.InitFlags(fs)
	_ = fs.Set("logtostderr", "false")
	_ = fs.Set("alsologtostderr", "false")
	_ = fs.Set("stderrthreshold", "FATAL")
	_ = fs.Set("v", "0")
	klog.SetOutput(ioutil.Discard)
	// the TiKV client logs through pingcap/log (zap): keep only fatal messages
	if lg, props, err := pinglog.InitLogger(&pinglog.Config{Level: "fatal"}); err == nil {
		pinglog.ReplaceGlobals(lg, props)
	}
}

// Prefix is the backend prefix used by all harnesses
const Prefix = "/registry"

// InitRev is the fixed initial revision: with it a sequential history gets the same revisions on every engine and run
const InitRev uint64 = 1000

// ---------------------------------------------------------------------------------------------------------------
// metrics

// nopMetrics implements metrics.Metrics doing nothing
type nopMetrics struct{}

func (nopMetrics) GetGrpcServerOption() []grpc.ServerOption { return nil }
func (nopMetrics) GetHttpHandlers() map[string]http.Handler { return nil }
func (nopMetrics) EmitCounter(name string, value interface{}, tags ...metrics.T) error {
	return nil
}
func (nopMetrics) EmitGauge(name string, value interface{}, tags ...metrics.T) error { return nil }
func (nopMetrics) EmitHistogram(name string, value interface{}, tags ...metrics.T) error {
	return nil
}

// NopMetrics is the shared no-op metrics client
var NopMetrics metrics.Metrics = nopMetrics{}

// ---------------------------------------------------------------------------------------------------------------
// engines

// Engine names
const (
	EngMem        = "memkv"
	EngBadger     = "badger"
	EngTiKV       = "tikv"
	EngTiKVPool   = "tikv-pool"
	EngMemMetrics = "metrics(memkv)"
	EngBadgerMet  = "metrics(badger)"
	EngTiKVMet    = "metrics(tikv)"
)

// AllEngines lists every engine / wrapper combination
var AllEngines = []string{EngMem, EngBadger, EngTiKV, EngMemMetrics, EngBadgerMet, EngTiKVMet}

var scratchRoot string
var scratchSeq int64

// ScratchDir returns a fresh directory under the run's scratch root
func ScratchDir() string {
	if scratchRoot == "" {
		root := os.Getenv("VERIF_SCRATCH")
		if root == "" {
			root = os.TempDir()
		}
		d, err := ioutil.TempDir(root, "kbverif-")
		if err != nil {
			panic(err)
		}
		scratchRoot = d
	}
	d := filepath.Join(scratchRoot, fmt.Sprintf("d%d", atomic.AddInt64(&scratchSeq, 1)))
	if err := os.MkdirAll(d, 0o755); err != nil {
		panic(err)
	}
	return d
}

// CleanScratch removes everything created by ScratchDir
func CleanScratch() {
	if scratchRoot != "" {
		_ = os.RemoveAll(scratchRoot)
		scratchRoot = ""
	}
}

// EngineHandle is an opened storage engine with its cleanup
type EngineHandle struct {
	TiKVGuard *guardedTiKVClient // TiKV engines: the hook point between the TiKV client and the mock cluster
	Name      string
	KV        storage.KvStorage
	Dir       string // badger only
	close     func()
}

// Close closes the engine and removes its files
func (e *EngineHandle) Close() {
	if e.close != nil {
		e.close()
		e.close = nil
	}
}

// OpenEngine opens a fresh engine; splitKeys (un-encoded region split keys) apply to the TiKV mock only
func OpenEngine(name string, splitKeys ...[]byte) (*EngineHandle, error) {
	switch name {
	case EngMem:
		return &EngineHandle{Name: name, KV: imemkv.NewKvStorage()}, nil
	case EngBadger:
		dir := ScratchDir()
		return OpenBadgerAt(dir, true)
	case EngTiKV, EngTiKVPool:
		rpcClient, cluster, pdClient, err := testutils.NewMockTiKV("", nil)
		if err != nil {
			return nil, err
		}
		testutils.BootstrapWithMultiRegions(cluster, splitKeys...)
		guard := &guardedTiKVClient{inner: rpcClient}
		// production builds a pool of TiKV clients over one cluster and the adapter takes them in turn: with
		// tikv-pool consecutive storage calls go through different clients (each with its own cached state)
		n := 1
		if name == EngTiKVPool {
			n = 3
		}
		var sts []*tikv.KVStore
		for i := 0; i < n; i++ {
			st, err := tikv.NewTestTiKVStore(rpcClient, pdClient, func(c tikv.Client) tikv.Client { return guard }, nil, 0)
			if err != nil {
				return nil, err
			}
			// the client loads the cluster's GC safe point on a goroutine of its own; until that has happened once every
			// read fails with "start timestamp may fall behind safe point". On a starved machine the first request of
			// a case can get there first: wait for the client to be ready (an artefact of the client, not of the adapter)
			for t0 := time.Now(); time.Since(t0) < 20*time.Second; time.Sleep(time.Millisecond) {
				if st.CheckVisibility(math.MaxUint64) == nil {
					break
				}
			}
			sts = append(sts, st)
		}
		kv := itikv.NewKvStoreWithStorage(sts)
		return &EngineHandle{Name: name, KV: kv, TiKVGuard: guard, close: func() { _ = kv.Close() }}, nil
	case EngMemMetrics, EngBadgerMet, EngTiKVMet:
		inner := map[string]string{EngMemMetrics: EngMem, EngBadgerMet: EngBadger, EngTiKVMet: EngTiKV}[name]
		h, err := OpenEngine(inner, splitKeys...)
		if err != nil {
			return nil, err
		}
		h.Name = name
		h.KV = imetrics.NewKvStorage(h.KV, NopMetrics)
		return h, nil
	}
	return nil, fmt.Errorf("unknown engine %q", name)
}

func imetricsNew(kv storage.KvStorage) storage.KvStorage {
	return imetrics.NewKvStorage(kv, NopMetrics)
}

// guardedTiKVClient sits between the TiKV client and the mock cluster. The TiKV client resolves leftover transaction
// locks on goroutines of its own (a reader that meets the lock of a transaction whose secondary keys are still being
// committed starts one); a request of such a goroutine that reaches the mock after its store was closed crashes inside
// the mock (nil dereference in its closed leveldb). Close waits for requests in flight and later ones get an error.
type guardedTiKVClient struct {
	inner  tikv.Client
	mu     sync.RWMutex
	closed bool
	// Hook, if set, may answer a request instead of the mock cluster (fault injection below the adapter)
	hook atomic.Value // func(*tikvrpc.Request) *tikvrpc.Response
}

// SetHook installs (or, with nil, removes) the request hook
func (g *guardedTiKVClient) SetHook(f func(*tikvrpc.Request) *tikvrpc.Response) {
	if f == nil {
		f = func(*tikvrpc.Request) *tikvrpc.Response { return nil }
	}
	g.hook.Store(f)
}

// SendRequest implements tikv.Client
func (g *guardedTiKVClient) SendRequest(ctx context.Context, addr string, req *tikvrpc.Request, timeout time.Duration) (*tikvrpc.Response, error) {
	g.mu.RLock()
	defer g.mu.RUnlock()
	if g.closed {
		return nil, fmt.Errorf("mock cluster closed")
	}
	if h, ok := g.hook.Load().(func(*tikvrpc.Request) *tikvrpc.Response); ok {
		if resp := h(req); resp != nil {
			return resp, nil
		}
	}
	return g.inner.SendRequest(ctx, addr, req, timeout)
}

// Close implements tikv.Client
func (g *guardedTiKVClient) Close() error {
	g.mu.Lock()
	defer g.mu.Unlock()
	if g.closed {
		return nil
	}
	g.closed = true
	return g.inner.Close()
}

// OpenBadgerAt opens (or re-opens) a Badger store in dir
func OpenBadgerAt(dir string, removeOnClose bool) (*EngineHandle, error) {
	kv, err := ibadger.NewKvStorage(ibadger.Config{Dir: dir})
	if err != nil {
		return nil, err
	}
	return &EngineHandle{Name: EngBadger, KV: kv, Dir: dir, close: func() {
		_ = kv.Close()
		if removeOnClose {
			_ = os.RemoveAll(dir)
		}
	}}, nil
}

// ---------------------------------------------------------------------------------------------------------------
// backend life cycle

// BackendOpts configures NewTestBackend
type BackendOpts struct {
	CacheSize int
	Skipped   []string
	Etcd      bool
	Metrics   metrics.Metrics
	Init      uint64
	Identity  string
	Prefix    string
}

// NewTestBackend builds a real backend over kv and initialises its revision
func NewTestBackend(kv storage.KvStorage, o BackendOpts) backend.Backend {
	if o.CacheSize == 0 {
		o.CacheSize = 4096
	}
	if o.Metrics == nil {
		o.Metrics = NopMetrics
	}
	if o.Init == 0 {
		o.Init = InitRev
	}
	if o.Identity == "" {
		o.Identity = "node-0"
	}
	if o.Prefix == "" {
		o.Prefix = Prefix
	}
	b := backend.NewBackend(kv, backend.Config{
		EnableEtcdCompatibility: o.Etcd,
		Prefix:                  o.Prefix,
		Identity:                o.Identity,
		SkippedPrefixes:         o.Skipped,
		WatchCacheSize:          o.CacheSize,
	}, o.Metrics)
	b.SetCurrentRevision(o.Init)
	return b
}

// StopBackend stops the background loops of a backend (verif hook H1)
func StopBackend(b backend.Backend) {
	backend.StopForVerif(b)
}

// WaitCommitted spins until the backend's read revision reaches rev; false on timeout
func WaitCommitted(b backend.Backend, rev uint64, d time.Duration) bool {
	deadline := time.Now().Add(d)
	for i := 0; ; i++ {
		if b.GetCurrentRevision() >= rev {
			return true
		}
		if i%1024 == 1023 {
			if time.Now().After(deadline) {
				return false
			}
			time.Sleep(50 * time.Microsecond)
		}
	}
}

type ctxKey int

const clientKey ctxKey = 1

// ClientCtx tags a context with a harness client id
func ClientCtx(id int) context.Context {
	return context.WithValue(context.Background(), clientKey, id)
}

// ClientOf returns the client id carried by ctx, or -1
func ClientOf(ctx context.Context) int {
	if ctx == nil {
		return -1
	}
	if v, ok := ctx.Value(clientKey).(int); ok {
		return v
	}
	return -1
}

// ---------------------------------------------------------------------------------------------------------------
// DetachableBackend

// DetachableBackend forwards to a real backend until Detach is called. brain.New starts a background loop that never
// ends and keeps its backend reachable for ever; a backend owns megabytes of buffers, so server objects of a case are
// given this thin handle and the real backend is released when the case ends.
type DetachableBackend struct {
	p atomic.Value // *backendBox
}

type backendBox struct{ b backend.Backend }

// NewDetachable wraps b
func NewDetachable(b backend.Backend) *DetachableBackend {
	d := &DetachableBackend{}
	d.p.Store(&backendBox{b})
	return d
}

// Detach releases the real backend; later calls are answered with an error
func (d *DetachableBackend) Detach() { d.p.Store(&backendBox{deadBackend{}}) }

func (d *DetachableBackend) cur() backend.Backend { return d.p.Load().(*backendBox).b }

func (d *DetachableBackend) Create(ctx context.Context, r *proto.CreateRequest) (*proto.CreateResponse, error) {
	return d.cur().Create(ctx, r)
}
func (d *DetachableBackend) Update(ctx context.Context, r *proto.UpdateRequest) (*proto.UpdateResponse, error) {
	return d.cur().Update(ctx, r)
}
func (d *DetachableBackend) Delete(ctx context.Context, r *proto.DeleteRequest) (*proto.DeleteResponse, error) {
	return d.cur().Delete(ctx, r)
}
func (d *DetachableBackend) Compact(ctx context.Context, rev uint64) (*proto.CompactResponse, error) {
	return d.cur().Compact(ctx, rev)
}
func (d *DetachableBackend) Get(ctx context.Context, r *proto.GetRequest) (*proto.GetResponse, error) {
	return d.cur().Get(ctx, r)
}
func (d *DetachableBackend) List(ctx context.Context, r *proto.RangeRequest) (*proto.RangeResponse, error) {
	return d.cur().List(ctx, r)
}
func (d *DetachableBackend) Count(ctx context.Context, r *proto.CountRequest) (*proto.CountResponse, error) {
	return d.cur().Count(ctx, r)
}
func (d *DetachableBackend) GetPartitions(ctx context.Context, r *proto.ListPartitionRequest) (*proto.ListPartitionResponse, error) {
	return d.cur().GetPartitions(ctx, r)
}
func (d *DetachableBackend) ListByStream(ctx context.Context, s, e []byte, rev uint64) (<-chan *proto.StreamRangeResponse, error) {
	return d.cur().ListByStream(ctx, s, e, rev)
}
func (d *DetachableBackend) Watch(ctx context.Context, key string, rev uint64) (<-chan []*proto.Event, error) {
	return d.cur().Watch(ctx, key, rev)
}
func (d *DetachableBackend) GetResourceLock() resourcelock.Interface {
	return d.cur().GetResourceLock()
}
func (d *DetachableBackend) GetCurrentRevision() uint64    { return d.cur().GetCurrentRevision() }
func (d *DetachableBackend) SetCurrentRevision(rev uint64) { d.cur().SetCurrentRevision(rev) }

var errNodeGone = fmt.Errorf("the case is over: this node has been shut down")

type deadBackend struct{}

func (deadBackend) Create(context.Context, *proto.CreateRequest) (*proto.CreateResponse, error) {
	return nil, errNodeGone
}
func (deadBackend) Update(context.Context, *proto.UpdateRequest) (*proto.UpdateResponse, error) {
	return nil, errNodeGone
}
func (deadBackend) Delete(context.Context, *proto.DeleteRequest) (*proto.DeleteResponse, error) {
	return nil, errNodeGone
}
func (deadBackend) Compact(context.Context, uint64) (*proto.CompactResponse, error) {
	return nil, errNodeGone
}
func (deadBackend) Get(context.Context, *proto.GetRequest) (*proto.GetResponse, error) {
	return nil, errNodeGone
}
func (deadBackend) List(context.Context, *proto.RangeRequest) (*proto.RangeResponse, error) {
	return nil, errNodeGone
}
func (deadBackend) Count(context.Context, *proto.CountRequest) (*proto.CountResponse, error) {
	return nil, errNodeGone
}
func (deadBackend) GetPartitions(context.Context, *proto.ListPartitionRequest) (*proto.ListPartitionResponse, error) {
	return nil, errNodeGone
}
func (deadBackend) ListByStream(context.Context, []byte, []byte, uint64) (<-chan *proto.StreamRangeResponse, error) {
	return nil, errNodeGone
}
func (deadBackend) Watch(context.Context, string, uint64) (<-chan []*proto.Event, error) {
	return nil, errNodeGone
}
func (deadBackend) GetResourceLock() resourcelock.Interface { return nil }
func (deadBackend) GetCurrentRevision() uint64              { return 0 }
func (deadBackend) SetCurrentRevision(uint64)               {}
