package props

import (
	"context"
	"fmt"
	"testing"
	"time"

	proto "github.com/kubewharf/kubebrain-client/api/v2rpc"

	"github.com/kubewharf/kubebrain/pkg/backend"
	"pgregory.net/rapid"
)

// C04, lap mode. A finished write is handed to the sequencer through a fixed array of slots indexed by the revision
// modulo its capacity (100 000). Every slot is therefore used again one "lap" later. The ordinary C04 modes issue a few
// hundred revisions per case and never come back to a slot; here a case issues more revisions than the array has slots:
// a generated head of requests (successful, failed, rejected), a filler of cheap requests that brings the revision
// counter to just before the head's slots, and a generated tail that re-uses exactly those slots.
// Oracle (C04): every revision handed out is resolved — the read revision reaches the last one (bounded wait, re-checked
// by the framework), every answer agrees with the model, the final store equals the model.

const ringCapacity = 100000 // pkg/backend watchersChanCapacity

type c04LapCase struct {
	Engine string
	Keys   []string
	Head   []WOp
	// Short: the filler ends Short revisions before the head's first slot comes round again (0..3)
	Short int
	// Every n-th filler request is a successful write (the others fail their condition): 0 = none
	OkEvery int
	Tail    []WOp
}

func genC04Lap(t *rapid.T) interface{} {
	c := &c04LapCase{Engine: EnvStr("VERIF_ENGINE", EngMem)}
	c.Keys = genKeyPool(t, 2, 4)
	nh := rapid.IntRange(1, 25).Draw(t, "nhead")
	failShare := rapid.SampledFrom([]int{20, 50, 80, 100}).Draw(t, "failShare")
	gen := func(label string) WOp {
		op := genWOp(t, len(c.Keys))
		if op.V%8 == 5 {
			op.V = 0 // no multi-KB values: the case holds > 100 000 revisions
		}
		if DrawBool(t, failShare, label) {
			if op.Kind == "create" {
				op = &WOp{Kind: "update", K: op.K, Exp: "stale"}
			} else {
				op.Exp = rapid.SampledFrom([]string{"stale", "other", "future", "far"}).Draw(t, "fexp")
			}
		} else if op.Kind != "create" {
			op.Exp = "ok"
		}
		return *op
	}
	for i := 0; i < nh; i++ {
		c.Head = append(c.Head, gen("hfail"))
	}
	c.Short = rapid.IntRange(0, 3).Draw(t, "short")
	c.OkEvery = rapid.SampledFrom([]int{0, 7, 50, 1000}).Draw(t, "okEvery")
	nt := nh + c.Short + rapid.IntRange(2, 12).Draw(t, "ntailExtra")
	for i := 0; i < nt; i++ {
		c.Tail = append(c.Tail, gen("tfail"))
	}
	return c
}

func runC04Lap(ci interface{}, st *CaseStats) error {
	c := ci.(*c04LapCase)
	keys := make([]string, len(c.Keys))
	for i, k := range c.Keys {
		keys[i] = FullKey(k)
	}
	env, err := NewSeqEnv(SeqOpts{Engine: c.Engine, Keys: keys})
	if err != nil {
		return Inconclusivef("env: %v", err)
	}
	defer env.Close()
	failedHead := 0
	for i, op := range c.Head {
		res, err := env.DoWrite(op)
		if err != nil {
			return fmt.Errorf("head %d: %v", i, err)
		}
		if res.Outcome != "ok" {
			failedHead++
		}
	}
	if err := env.Settle(); err != nil {
		return fmt.Errorf("after the head: %v", err)
	}
	// filler: bring the counter to Short revisions before the head's first slot comes round again
	first := env.Init + 1
	target := first + ringCapacity - uint64(c.Short) - 1 // last filler revision
	fillKey := []byte(FullKey("lap-filler"))
	fillRev := uint64(0)
	ctx := context.Background()
	n := 0
	for env.LastRev < target {
		n++
		if c.OkEvery > 0 && n%c.OkEvery == 0 {
			r, err := env.B.Update(ctx, &proto.UpdateRequest{Kv: &proto.KeyValue{Key: fillKey, Value: []byte{byte('a' + n%26)}, Revision: fillRev}})
			if err != nil || !r.Succeeded {
				return fmt.Errorf("filler write %d (expected revision %d) did not succeed: %v %v", n, fillRev, r, err)
			}
			if r.Header.Revision <= env.LastRev {
				return fmt.Errorf("filler write %d got revision %d, not above %d", n, r.Header.Revision, env.LastRev)
			}
			env.M.ApplyPut(string(fillKey), []byte{byte('a' + n%26)}, r.Header.Revision, fillRev == 0)
			fillRev, env.LastRev = r.Header.Revision, r.Header.Revision
			continue
		}
		// a guarded update of a key that never exists: consumes one revision
		r, err := env.B.Update(ctx, &proto.UpdateRequest{Kv: &proto.KeyValue{Key: []byte(FullKey("lap-none")), Value: []byte("x"), Revision: env.Init}})
		if err != nil {
			return fmt.Errorf("filler request %d returned error %v", n, err)
		}
		if r.Succeeded {
			return fmt.Errorf("filler request %d: a guarded update of a key that does not exist succeeded", n)
		}
		if r.Header.Revision <= env.LastRev {
			return fmt.Errorf("filler request %d got revision %d, not above %d", n, r.Header.Revision, env.LastRev)
		}
		env.LastRev = r.Header.Revision
		if n%20000 == 0 {
			// the sequencer must keep up: a lag of a whole lap is fatal by design (panic "watch push buffer full")
			if !WaitCommitted(env.B, env.LastRev, 20*time.Second) {
				return fmt.Errorf("read revision stuck at %d during the filler, revisions up to %d were handed out", env.B.GetCurrentRevision(), env.LastRev)
			}
		}
	}
	if err := env.Settle(); err != nil {
		return fmt.Errorf("after the filler (%d requests): %v", n, err)
	}
	for i, op := range c.Tail {
		before := env.LastRev
		if _, err := env.DoWrite(op); err != nil {
			return fmt.Errorf("tail %d (revision %d re-uses the slot of revision %d): %v", i, before+1, before+1-ringCapacity, err)
		}
		// each tail request is resolved before the next one: a read revision that jumps back shows at once
		if !WaitCommitted(env.B, env.LastRev, 10*time.Second) {
			return fmt.Errorf("tail %d: read revision is still %d within 10s after revision %d was handed out (its slot was used by revision %d one lap earlier)", i, env.B.GetCurrentRevision(), env.LastRev, env.LastRev-ringCapacity)
		}
		if cur := env.B.GetCurrentRevision(); cur < before {
			return fmt.Errorf("tail %d: read revision went back to %d (was at least %d)", i, cur, before)
		}
	}
	if env.LastRev < first+ringCapacity+uint64(len(c.Head))-1 {
		return Inconclusivef("the tail ended at revision +%d, before the head's slots were all re-used", env.LastRev-env.Init)
	}
	for _, k := range append(append([]string{}, keys...), string(fillKey)) {
		if _, err := env.CheckGet(k, 0); err != nil {
			return err
		}
	}
	if _, err := env.CheckList([]byte(Prefix+"/"), backend.PrefixEnd([]byte(Prefix+"/")), 0, 0); err != nil {
		return err
	}
	st.Labelf("head-failed:%s", bucket(failedHead))
	st.Labelf("filler-ok-every:%d", c.OkEvery)
	st.Count("lap_revisions", int(env.LastRev-env.Init))
	if failedHead > 0 {
		st.Nontrivial()
	}
	return nil
}

var specC04Lap = &Spec{
	ID:      "C04",
	Rule:    "lap mode: case = head of 1..25 generated requests (20-100% failing or rejected), a filler that brings the revision counter to 0..3 revisions before the sequencer's slot array (100 000 slots, indexed by revision) wraps onto the head's slots, and a generated tail long enough to re-use every one of them. Oracle: every revision handed out is resolved (read revision reaches it, never goes back), answers and final store agree with the model. Non-trivial = the head contains a failed or rejected request whose slot is re-used; distinct = SHA-1 of the case",
	Gen:     genC04Lap,
	New:     func() interface{} { return &c04LapCase{} },
	Run:     runC04Lap,
	Engines: []string{EngMem},
}

func TestC04Lap(t *testing.T) { RunProperty(t, specC04Lap) }
