package props

import (
	"bytes"
	"fmt"
	"sort"
	"strings"
	"sync/atomic"
	"testing"

	"pgregory.net/rapid"

	"github.com/kubewharf/kubebrain/pkg/backend"
)

// C07 — compaction never changes what a read at or above the compaction revision sees
// (fault enumeration: every delete position x fault kind per generated history)

type c07Case struct {
	Engine  string
	Keys    []string // full raw keys
	Skipped []string // skipped prefixes (validated form: extend the prefix, no trailing slash)
	Hist    []WOp
	CSel    int   // <0: request 0 (= current); 0..: selects a revision between first and current; >=1000: above current
	Post    []WOp // writes after the compaction
	// Fault selects one placement when >=0 (replay of a single placement); -1 = enumerate all
	OnlyPos  int    `json:"only_pos"`
	OnlyKind string `json:"only_kind,omitempty"`
	// Splits (engine tikv-regions): region borders of the TiKV mock at internal keys of pool keys (index record or any
	// revision of the history): the compaction scans per region, borders fall between versions of one key
	Splits []c03Split `json:",omitempty"`
	// IterFault n > 0: one more placement per case — the (n-1 mod N)-th step of the compaction's iterators (N steps in
	// the fault-free run) fails once with a plain error; the scanner retries that partition after its back-off (1 s)
	IterFault int `json:"iter_fault,omitempty"`
}

// number of iterator steps the compaction of the last c07Exec made
var c07LastNexts int64

var c07FaultKinds = []string{"err", "cas", "die", "lost-ack", "unknown-lost"}

func genC07(t *rapid.T) interface{} {
	c := &c07Case{Engine: EnvStr("VERIF_ENGINE", EngMem), OnlyPos: -1}
	// skipped prefixes
	switch rapid.IntRange(0, 5).Draw(t, "skipcfg") {
	case 0, 1:
	case 2, 3:
		c.Skipped = []string{Prefix + "/skip"}
	case 4:
		c.Skipped = []string{Prefix + "/skip", Prefix + "/a/b"}
	case 5:
		c.Skipped = []string{Prefix + "/zz", Prefix + "/skip"}
	}
	names := append([]string{}, KeyFamilies[:8]...)
	pool := []string{}
	for _, n := range names {
		pool = append(pool, FullKey(n))
	}
	pool = append(pool, Prefix+"/skip/x", Prefix+"/skip/y/z", Prefix+"/skip", Prefix+"/skipx", "/other/x", Prefix+"x/y", Prefix+"/zz/q", Prefix+"/a/b/in")
	n := rapid.IntRange(2, 6).Draw(t, "nkeys")
	perm := rapid.Permutation(pool).Draw(t, "keys")
	c.Keys = append([]string{}, perm[:n]...)
	nh := rapid.IntRange(4, 24).Draw(t, "nhist")
	for i := 0; i < nh; i++ {
		op := genWOp(t, n)
		// bias towards successful histories: multi-version keys, tombstones, re-creations
		if DrawBool(t, 70, "forceOk") && op.Kind != "create" {
			op.Exp = "ok"
		}
		c.Hist = append(c.Hist, *op)
	}
	if c.Engine == engTiKVRegions {
		ns := rapid.IntRange(1, 4).Draw(t, "nsplits")
		for i := 0; i < ns; i++ {
			c.Splits = append(c.Splits, c03Split{K: DrawIntn(t, len(c.Keys), "splitKey"), Off: rapid.IntRange(-2, nh).Draw(t, "splitOff")})
		}
	}
	if !strings.Contains(c.Engine, "badger") && rapid.IntRange(0, 99).Draw(t, "iterFault") >= 90 {
		c.IterFault = 1 + rapid.IntRange(0, 60).Draw(t, "iterFaultAt")
	}
	c.CSel = rapid.OneOf(rapid.Just(-1), rapid.IntRange(0, 30), rapid.Just(1000)).Draw(t, "csel")
	np := rapid.IntRange(1, 6).Draw(t, "npost")
	for i := 0; i < np; i++ {
		op := genWOp(t, n)
		if DrawBool(t, 60, "postOk") && op.Kind != "create" {
			op.Exp = "ok"
		}
		c.Post = append(c.Post, *op)
	}
	return c
}

// inCompactRange says whether a raw key lies in the configured compaction ranges:
// under prefix+"/" and not under any skipped prefix+"/"
func inCompactRange(key string, skipped []string) bool {
	if !strings.HasPrefix(key, Prefix+"/") {
		return false
	}
	for _, s := range skipped {
		if strings.HasPrefix(key, s+"/") {
			return false
		}
	}
	return true
}

type c07Snap struct {
	gets  map[string]string
	lists map[uint64]string
}

func (e *SeqEnv) c07Reads(revs []uint64, keys []string) (*c07Snap, error) {
	s := &c07Snap{gets: map[string]string{}, lists: map[uint64]string{}}
	for _, r := range revs {
		for _, k := range keys {
			d, err := e.CheckGet(k, r)
			if err != nil {
				return nil, err
			}
			s.gets[fmt.Sprintf("%s@%d", k, r)] = d
		}
		d, err := e.CheckList([]byte("/"), []byte("0"), r, 0)
		if err != nil {
			return nil, err
		}
		s.lists[r] = d
	}
	return s, nil
}

func c07Setup(c *c07Case) (*SeqEnv, error) {
	engine, splits := strings.TrimSuffix(c.Engine, "+metrics"), [][]byte(nil)
	if engine == engTiKVRegions {
		engine = EngTiKV
		for _, sp := range c.Splits {
			var rev uint64
			if sp.Off >= 0 {
				rev = InitRev + 1 + uint64(sp.Off)
			}
			splits = append(splits, shimCoder.EncodeObjectKey([]byte(c.Keys[sp.K%len(c.Keys)]), rev))
		}
		sort.Slice(splits, func(i, j int) bool { return bytes.Compare(splits[i], splits[j]) < 0 })
		ded := splits[:0]
		for i, k := range splits {
			if i == 0 || !bytes.Equal(k, splits[i-1]) {
				ded = append(ded, k)
			}
		}
		splits = ded
	}
	env, err := NewSeqEnv(SeqOpts{Engine: engine, Keys: c.Keys, UseShim: true, SplitKeys: splits, MetricsOutside: strings.HasSuffix(c.Engine, "+metrics"), Backend: BackendOpts{Skipped: c.Skipped}})
	if err != nil {
		return nil, Inconclusivef("engine: %v", err)
	}
	for i, op := range c.Hist {
		if _, err := env.DoWrite(op); err != nil {
			env.Close()
			return nil, fmt.Errorf("history step %d: %v", i, err)
		}
	}
	if err := env.Settle(); err != nil {
		env.Close()
		return nil, err
	}
	return env, nil
}

func c07CompactRev(c *c07Case, env *SeqEnv) uint64 {
	cur := env.B.GetCurrentRevision()
	switch {
	case c.CSel < 0:
		return 0
	case c.CSel >= 1000:
		return cur + 7
	case cur > env.Init:
		return env.Init + 1 + uint64(c.CSel)%(cur-env.Init)
	}
	return 0
}

func outsideRecords(env *SeqEnv, skipped []string) (map[string]string, error) {
	all, err := DumpAll(env.Eng.KV)
	if err != nil {
		return nil, err
	}
	out := map[string]string{}
	for _, r := range all {
		if len(r.Key) < 13 {
			continue
		}
		raw, _, derr := shimCoder.Decode(r.Key)
		if derr != nil {
			continue // compaction record, election record
		}
		if !inCompactRange(string(raw), skipped) {
			out[string(r.Key)] = string(r.Val)
		}
	}
	return out, nil
}

// one execution: history, compaction with an optional fault, oracle
func c07Exec(c *c07Case, pos int, kind string, st *CaseStats) (deletes int, interesting bool, err error) {
	env, err := c07Setup(c)
	if err != nil {
		return 0, false, err
	}
	defer env.Close()
	cur := env.B.GetCurrentRevision()
	req := c07CompactRev(c, env)
	eff := req
	if eff == 0 || eff > cur {
		eff = cur
	}
	// revisions to read: every revision in [eff, cur] (capped) and 0
	var revs []uint64
	for r := eff; r <= cur && len(revs) < 8; r++ {
		revs = append(revs, r)
	}
	if len(revs) > 0 && revs[len(revs)-1] != cur {
		revs = append(revs, cur)
	}
	revs = append(revs, 0)
	before, err := env.c07Reads(revs, c.Keys)
	if err != nil {
		return 0, false, fmt.Errorf("before compaction: %v", err)
	}
	outBefore, err := outsideRecords(env, c.Skipped)
	if err != nil {
		return 0, false, Inconclusivef("dump: %v", err)
	}
	base := 0
	env.Shim.mu.Lock()
	base = env.Shim.nDelete
	env.Shim.mu.Unlock()
	if pos >= 0 {
		env.Shim.OnDelete = func(idx int, key []byte, current bool) Decision {
			i := idx - base
			switch kind {
			case "err":
				if i == pos {
					return FailNoApply
				}
			case "cas":
				// a failed condition is a fault of the compare-and-delete only: an unconditional delete of a
				// version record can report a condition failure only if somebody else removed that record
				if i == pos && current {
					return FailCAS
				}
				if i == pos {
					st.Count("cas_on_unconditional_delete_skipped", 1)
				}
			case "die":
				if i >= pos {
					return FailNoApply
				}
			case "lost-ack":
				if i == pos {
					return UncertainApplied
				}
			case "unknown-lost":
				// the engine answers "outcome unknown" and the delete did not happen
				if i == pos {
					return UncertainNotApplied
				}
			}
			return Pass
		}
	}
	failStep := -1
	if kind == "iter-step" {
		failStep = pos
	}
	if kind == "iter-target0" || kind == "iter-target1" {
		// aim at the step that fetches the deletion record of a key whose previous record is a live version: the scan
		// walks the records in key order, one step per record
		all, derr := DumpAll(env.Eng.KV)
		if derr != nil {
			return 0, false, Inconclusivef("dump: %v", derr)
		}
		var inRange []RawKV
		for _, r := range all {
			if len(r.Key) < 13 {
				continue
			}
			raw, _, e := shimCoder.Decode(r.Key)
			if e == nil && inCompactRange(string(raw), c.Skipped) {
				inRange = append(inRange, r)
			}
		}
		var cands []int
		for i := 1; i < len(inRange); i++ {
			k, rev, _ := shimCoder.Decode(inRange[i].Key)
			pk, prev, _ := shimCoder.Decode(inRange[i-1].Key)
			if rev > 0 && prev > 0 && bytes.Equal(k, pk) && string(inRange[i].Val) == "tombstone" && string(inRange[i-1].Val) != "tombstone" {
				cands = append(cands, i)
			}
		}
		if len(cands) == 0 {
			return 0, false, nil
		}
		failStep = cands[pos%len(cands)]
		if kind == "iter-target1" {
			failStep++
		}
		st.Label("iterator-fault-aimed-at-a-deletion-record")
	}
	var nexts int64
	env.Shim.OnNext = func(iterIdx, p int) Decision {
		n := atomic.AddInt64(&nexts, 1) - 1
		if int(n) == failStep {
			return FailNoApply
		}
		return Pass
	}
	resp, cerr := env.B.Compact(env.Ctx, req)
	env.Shim.OnDelete = nil
	env.Shim.OnNext = nil
	c07LastNexts = atomic.LoadInt64(&nexts)
	if cerr != nil {
		return 0, false, fmt.Errorf("Compact(%d) returned error %v", req, cerr)
	}
	if resp.Header.Revision != eff {
		return 0, false, fmt.Errorf("Compact(%d) reports effective revision %d, expected %d (committed %d)", req, resp.Header.Revision, eff, cur)
	}
	env.Shim.mu.Lock()
	deletes = env.Shim.nDelete - base
	dels := append([][]byte{}, env.Shim.DelLog[base:]...)
	env.Shim.mu.Unlock()
	where := fmt.Sprintf("after Compact(%d) [effective %d, %d deletes, fault %s@%d]", req, eff, deletes, kind, pos)
	// keys outside the compaction ranges are not touched
	for _, dk := range dels {
		raw, _, derr := shimCoder.Decode(dk)
		if derr == nil && !inCompactRange(string(raw), c.Skipped) {
			return deletes, false, fmt.Errorf("%s: compaction issued a delete for %q which is outside the configured compaction ranges (skipped %v)", where, raw, c.Skipped)
		}
	}
	outAfter, err := outsideRecords(env, c.Skipped)
	if err != nil {
		return deletes, false, Inconclusivef("dump: %v", err)
	}
	if len(outAfter) != len(outBefore) {
		return deletes, false, fmt.Errorf("%s: records outside the compaction ranges changed: %d before, %d after", where, len(outBefore), len(outAfter))
	}
	for k, v := range outBefore {
		if outAfter[k] != v {
			return deletes, false, fmt.Errorf("%s: record %q outside the compaction ranges changed", where, k)
		}
	}
	after, err := env.c07Reads(revs, c.Keys)
	if err != nil {
		return deletes, false, fmt.Errorf("%s: %v", where, err)
	}
	for k, v := range before.gets {
		if after.gets[k] != v {
			return deletes, false, fmt.Errorf("%s: Get %s answered %s before and %s after", where, k, v, after.gets[k])
		}
	}
	for r, v := range before.lists {
		if after.lists[r] != v {
			return deletes, false, fmt.Errorf("%s: List at %d answered %s before and %s after", where, r, v, after.lists[r])
		}
	}
	// every key stays writable with normal semantics
	for i, op := range c.Post {
		if _, err := env.DoWrite(op); err != nil {
			return deletes, false, fmt.Errorf("%s: post-compaction write %d: %v", where, i, err)
		}
	}
	if err := env.Settle(); err != nil {
		return deletes, false, fmt.Errorf("%s: %v", where, err)
	}
	if _, err := env.c07Reads([]uint64{0, env.B.GetCurrentRevision()}, c.Keys); err != nil {
		return deletes, false, fmt.Errorf("%s, after further writes: %v", where, err)
	}
	// interesting history: some compactable key has a tombstone <= eff, or versions on both sides of eff
	for k, vs := range env.M.Keys {
		if !inCompactRange(k, c.Skipped) {
			continue
		}
		below, above, tomb := 0, 0, false
		for _, v := range vs {
			if v.Rev <= eff {
				below++
				if v.Tomb {
					tomb = true
				}
			} else {
				above++
			}
		}
		if tomb || (below >= 2 && above >= 1) {
			interesting = true
		}
	}
	return deletes, interesting, nil
}

func runC07(ci interface{}, st *CaseStats) error {
	c := ci.(*c07Case)
	st.Label("engine:" + c.Engine)
	if c.OnlyPos >= 0 {
		_, _, err := c07Exec(c, c.OnlyPos, c.OnlyKind, st)
		return err
	}
	d, interesting, err := c07Exec(c, -1, "none", st)
	if err != nil {
		return err
	}
	st.Count("fault_free_runs", 1)
	nextsFaultFree := int(c07LastNexts)
	st.Labelf("deletes:%s", bucket(d))
	if len(c.Skipped) > 0 {
		st.Label("cfg:skipped-prefixes")
	}
	// enumerate every position (all when d <= 16, else 16 spread) x every fault kind
	var positions []int
	if d <= 16 {
		for p := 0; p < d; p++ {
			positions = append(positions, p)
		}
	} else {
		seen := map[int]bool{}
		for i := 0; i < 16; i++ {
			p := i * (d - 1) / 15
			if !seen[p] {
				seen[p] = true
				positions = append(positions, p)
			}
		}
		sort.Ints(positions)
	}
	inner := false
	for _, p := range positions {
		for _, k := range c07FaultKinds {
			if _, _, err := c07Exec(c, p, k, st); err != nil {
				if _, inc := err.(*Inconclusive); inc {
					return err
				}
				// make the failing placement replayable on its own
				c.OnlyPos, c.OnlyKind = p, k
				return err
			}
			st.Count("fault_placements", 1)
		}
		if p > 0 && p < d-1 {
			inner = true
		}
	}
	if c.IterFault > 0 && nextsFaultFree > 0 {
		p := (c.IterFault - 1) % nextsFaultFree
		if _, _, err := c07Exec(c, p, "iter-step", st); err != nil {
			if _, inc := err.(*Inconclusive); inc {
				return err
			}
			c.OnlyPos, c.OnlyKind = p, "iter-step"
			return err
		}
		st.Count("iterator_step_fault_placements", 1)
		st.Label("iterator-step-failed-once")
		for _, k := range []string{"iter-target0", "iter-target1"} {
			if _, _, err := c07Exec(c, c.IterFault, k, st); err != nil {
				if _, inc := err.(*Inconclusive); inc {
					return err
				}
				c.OnlyPos, c.OnlyKind = c.IterFault, k
				return err
			}
		}
	}
	if interesting && inner {
		st.Nontrivial()
	}
	return nil
}

func bucket(n int) string {
	switch {
	case n == 0:
		return "0"
	case n <= 2:
		return "1-2"
	case n <= 5:
		return "3-5"
	case n <= 10:
		return "6-10"
	case n <= 16:
		return "11-16"
	}
	return ">16"
}

var _ = bytes.Equal
var _ = backend.PrefixEnd

var specC07 = &Spec{
	ID:    "C07",
	Level: "fault_enumeration",
	Rule:  "case = key pool (keys under the prefix, under skipped prefixes, outside the prefix), 0..2 skipped prefixes, history of 4..24 writes biased to multi-version keys / tombstones / re-creations, compaction revision (0, any revision, above current), 1..6 post-compaction writes. Per case: one fault-free compaction counts its D storage deletes, then every delete position p in 0..D-1 (all when D<=16, else 16 spread) x fault kind {delete fails, delete reports failed condition, compactor stops at p, delete applied but answered outcome-unknown, delete not applied and answered outcome-unknown} is replayed on a fresh store; a fifth of the cases add one placement of a transient error on a step of the iterators the compaction uses. Non-trivial = some compactable key has a tombstone <= R or versions on both sides of R, and a fault was placed strictly inside 1..D-2; distinct = SHA-1 of the case",
	Gen:   genC07,
	New:   func() interface{} { return &c07Case{OnlyPos: -1} },
	Run:   runC07,
	Assumptions: []string{
		"a compactor crash is modelled as: no delete from position p on is applied (deletes are the compaction's only effects besides the compaction record)",
		"configurations obey cmd/option validation; nested skipped prefixes are not generated",
	},
	Engines: []string{EngMem, EngBadger, EngTiKV},
}

func TestC07(t *testing.T) { RunProperty(t, specC07) }
