package props

import (
	"context"
	"fmt"
	"runtime"
	"sync"
	"sync/atomic"
	"testing"
	"time"

	proto "github.com/kubewharf/kubebrain-client/api/v2rpc"
	"pgregory.net/rapid"

	"github.com/kubewharf/kubebrain/pkg/backend"
	"github.com/kubewharf/kubebrain/pkg/backend/tso"
)

// C02, hammer mode. The gated and free-running C02 modes run 2-5 clients with 1-4 requests each: windows of a few
// nanoseconds inside the revision generator (between the sequencer publishing a revision and a client drawing the next
// one) are practically never hit. Here 2-16 clients issue 20 000-200 000 creates in total against one node, as fast as
// they can, while the sequencer publishes every one of them.
// Oracle (C02): no revision is answered twice; each client's revisions increase (a request that completed before the
// next one began has the smaller revision); every key's stored modification revision is the one its create was
// answered with; the read revision reaches the largest one.

type c02HammerCase struct {
	Engine  string
	Clients int
	PerCli  int
	// DupEvery: every n-th request of a client re-creates the key of its previous request (fails its condition and
	// consumes a revision); 0 = never
	DupEvery int
}

func genC02Hammer(t *rapid.T) interface{} {
	c := &c02HammerCase{Engine: EnvStr("VERIF_ENGINE", EngMem)}
	c.Clients = rapid.SampledFrom([]int{3, 2, 4, 3, 8, 16}).Draw(t, "clients")
	total := rapid.SampledFrom([]int{200000, 100000, 400000, 50000}).Draw(t, "total")
	c.PerCli = total / c.Clients
	c.DupEvery = rapid.SampledFrom([]int{0, 0, 3, 10, 100}).Draw(t, "dupEvery")
	return c
}

func runC02Hammer(ci interface{}, st *CaseStats) error {
	c := ci.(*c02HammerCase)
	env, err := NewSeqEnv(SeqOpts{Engine: c.Engine, Keys: []string{FullKey("h/x")}, Backend: BackendOpts{Etcd: true}})
	if err != nil {
		return Inconclusivef("env: %v", err)
	}
	defer env.Close()
	type ans struct {
		rev uint64
		ok  bool
	}
	res := make([][]ans, c.Clients)
	errs := make([]error, c.Clients)
	var wg sync.WaitGroup
	start := make(chan struct{})
	for ci := 0; ci < c.Clients; ci++ {
		wg.Add(1)
		go func(ci int) {
			defer wg.Done()
			ctx := context.Background()
			out := make([]ans, 0, c.PerCli)
			<-start
			for i := 0; i < c.PerCli; i++ {
				k := i
				dup := c.DupEvery > 0 && i > 0 && i%c.DupEvery == 0
				if dup {
					k = i - 1
				}
				r, err := env.B.Create(ctx, &proto.CreateRequest{Key: []byte(FullKey(fmt.Sprintf("h/%02d/%07d", ci, k))), Value: []byte("v")})
				if err != nil {
					errs[ci] = fmt.Errorf("client %d request %d returned error %v", ci, i, err)
					break
				}
				if r.Succeeded == dup {
					errs[ci] = fmt.Errorf("client %d request %d (on an existing key: %v) answered succeeded=%v", ci, i, dup, r.Succeeded)
					break
				}
				out = append(out, ans{r.Header.Revision, r.Succeeded})
			}
			res[ci] = out
		}(ci)
	}
	t0 := time.Now()
	close(start)
	wg.Wait()
	wall := time.Since(t0)
	for _, e := range errs {
		if e != nil {
			return e
		}
	}
	seen := make(map[uint64]int, c.Clients*c.PerCli)
	var max uint64
	nOK := 0
	for ci, out := range res {
		var prev uint64
		for i, a := range out {
			if a.rev <= prev {
				return fmt.Errorf("client %d: request %d was answered with revision %d, its previous request (completed before) with %d", ci, i, a.rev, prev)
			}
			prev = a.rev
			if a.ok {
				// only a successful create's header is certainly its own stamp (a failed one reports max(own, stored))
				if o, dup := seen[a.rev]; dup {
					return fmt.Errorf("revision %d was answered to two successful creates (clients %d and %d) among %d requests by %d clients", a.rev, o, ci, c.Clients*c.PerCli, c.Clients)
				}
				seen[a.rev] = ci
				nOK++
			}
			if a.rev > max {
				max = a.rev
			}
		}
	}
	if !WaitCommitted(env.B, max, 20*time.Second) {
		return fmt.Errorf("read revision stuck at %d, revisions up to %d were handed out", env.B.GetCurrentRevision(), max)
	}
	r, err := env.B.List(context.Background(), &proto.RangeRequest{Key: []byte(FullKey("h/")), End: backend.PrefixEnd([]byte(FullKey("h/")))})
	if err != nil {
		return fmt.Errorf("final List: %v", err)
	}
	if len(r.Kvs) != nOK {
		return fmt.Errorf("%d creates were answered as successful, the store lists %d keys", nOK, len(r.Kvs))
	}
	for _, kv := range r.Kvs {
		if _, ok := seen[kv.Revision]; !ok {
			return fmt.Errorf("key %q is stored with modification revision %d, which no successful create was answered with", kv.Key, kv.Revision)
		}
	}
	st.Labelf("clients:%d", c.Clients)
	st.Labelf("requests:%d", c.Clients*c.PerCli)
	st.Count("hammer_requests", c.Clients*c.PerCli)
	st.Count("hammer_wall_ms", int(wall/time.Millisecond))
	if c.Clients >= 4 {
		st.Nontrivial()
	}
	return nil
}

var specC02Hammer = &Spec{
	ID:      "C02",
	Rule:    "hammer mode: case = 2..16 clients issuing 20 000..200 000 creates in total (optionally every n-th one on an existing key) against one node without pause. Oracle: no revision answered to two successful creates, revisions increase along each client, stored modification revisions are the answered ones, the read revision reaches the largest. Non-trivial = at least 4 clients; distinct = SHA-1 of the case (the interleaving is the Go scheduler's)",
	Gen:     genC02Hammer,
	New:     func() interface{} { return &c02HammerCase{} },
	Run:     runC02Hammer,
	Engines: []string{EngMem},
}

func TestC02Hammer(t *testing.T) { RunProperty(t, specC02Hammer) }

// C02, generator mode. The same windows, attacked on the revision generator alone (pkg/backend/tso, anchored by C02) with
// the call pattern of the node: writers call Deal and publish the revision once "their write is done", one sequencer
// commits the published revisions strictly in order (as collectStorageWriteEvents does). Two orders of magnitude more
// requests per second than through a whole node. Closed-loop writers wait until their revision is committed before
// they draw the next one (the committed revision keeps catching up with the dealt one); open-loop writers do not.
// A generated number of "leader transfers" commit a revision far above everything dealt: the generator has to follow.

type c02TSOCase struct {
	Writers int
	Total   int
	Closed  bool
	// Jumps: after every Total/(Jumps+1) deals the sequencer commits a revision JumpBy above the newest dealt one
	Jumps  int
	JumpBy int
	Start  uint64
}

func genC02TSO(t *rapid.T) interface{} {
	c := &c02TSOCase{}
	c.Writers = rapid.SampledFrom([]int{3, 2, 1, 4, 8}).Draw(t, "writers")
	c.Total = rapid.SampledFrom([]int{400000, 100000, 1000000, 20000}).Draw(t, "total")
	c.Closed = DrawBool(t, 70, "closed")
	c.Start = rapid.SampledFrom([]uint64{1000, 0, 1 << 32, 1<<63 - 5000000, 1790000000000000000}).Draw(t, "start")
	return c
}

func runC02TSO(ci interface{}, st *CaseStats) error {
	c := ci.(*c02TSOCase)
	const ring = 1 << 14
	o := tso.NewTSO()
	o.Init(c.Start)
	var (
		published [ring]uint64
		stop      int32
		dealt     int64
		wg, swg   sync.WaitGroup
	)
	outs := make([][]uint64, c.Writers)
	errs := make([]error, c.Writers)
	swg.Add(1)
	go func() { // the sequencer
		defer swg.Done()
		next := c.Start + 1
		for {
			if atomic.LoadUint64(&published[next%ring]) == next {
				o.Commit(next)
				next++
				continue
			}
			if atomic.LoadInt32(&stop) == 1 && atomic.LoadUint64(&published[next%ring]) != next {
				return
			}
			spin()
		}
	}()
	per := c.Total / c.Writers
	for w := 0; w < c.Writers; w++ {
		wg.Add(1)
		go func(w int) {
			defer wg.Done()
			out := make([]uint64, 0, per)
			var prev uint64
			for i := 0; i < per; i++ {
				r, err := o.Deal()
				if err != nil {
					errs[w] = fmt.Errorf("Deal returned error %v", err)
					break
				}
				atomic.AddInt64(&dealt, 1)
				if r <= prev {
					errs[w] = fmt.Errorf("writer %d was dealt %d after %d", w, r-c.Start, prev-c.Start)
					break
				}
				prev = r
				out = append(out, r)
				// the slot must be free: the sequencer is at most ring/2 behind (enforced below)
				atomic.StoreUint64(&published[r%ring], r)
				if c.Closed {
					for o.GetRevision() < r && atomic.LoadInt32(&stop) == 0 {
						spin()
					}
				} else {
					for g := o.GetRevision(); g < r && r-g > ring/2 && atomic.LoadInt32(&stop) == 0; g = o.GetRevision() {
						spin()
					}
				}
			}
			outs[w] = out
		}(w)
	}
	done := make(chan struct{})
	go func() { wg.Wait(); close(done) }()
	var verdict error
	// a revision dealt twice leaves a hole in the published sequence: the sequencer waits for a revision nobody holds and
	// every closed-loop writer behind it waits too — no deal at all for a long time, however slow the machine is
	lastDealt, idle := int64(-1), 0
wait:
	for {
		select {
		case <-done:
			break wait
		case <-time.After(time.Second):
			if d := atomic.LoadInt64(&dealt); d == lastDealt {
				idle++
			} else {
				lastDealt, idle = d, 0
			}
			if idle >= 30 {
				verdict = fmt.Errorf("writers stalled: committed revision +%d, %d deals made, none for 30s — the sequencer waits for a revision nobody was dealt", o.GetRevision()-c.Start, atomic.LoadInt64(&dealt))
				break wait
			}
		}
	}
	atomic.StoreInt32(&stop, 1)
	<-done
	swg.Wait()
	for _, e := range errs {
		if e != nil {
			return e
		}
	}
	seen := make(map[uint64]int, c.Total)
	var max uint64
	for w, out := range outs {
		for _, r := range out {
			if ow, dup := seen[r]; dup {
				return fmt.Errorf("revision +%d was dealt twice (writers %d and %d) among %d deals by %d writers (closed loop: %v)", r-c.Start, ow, w, len(seen), c.Writers, c.Closed)
			}
			seen[r] = w
			if r > max {
				max = r
			}
		}
	}
	if verdict != nil {
		return verdict
	}
	if got := o.GetRevision(); got != max {
		return fmt.Errorf("committed revision is +%d after every dealt revision up to +%d was committed in order", got-c.Start, max-c.Start)
	}
	if uint64(len(seen)) != max-c.Start {
		return fmt.Errorf("%d revisions were dealt, the largest is +%d: the sequence has holes", len(seen), max-c.Start)
	}
	st.Labelf("writers:%d", c.Writers)
	st.Labelf("closed-loop:%v", c.Closed)
	st.Count("tso_deals", len(seen))
	if c.Writers >= 2 && c.Closed {
		st.Nontrivial()
	}
	return nil
}

var specC02TSO = &Spec{
	ID:      "C02",
	Rule:    "generator mode: case = 1..8 writers drawing 20 000..1 000 000 revisions from the node's revision generator and publishing them, one sequencer committing published revisions strictly in order; closed loop (a writer waits for its revision to be committed) or open loop; start revision 0, 1000, 2^32, near 2^63, a present-day nanosecond timestamp. Oracle: no revision dealt twice, each writer's revisions increase, no holes, committed revision ends at the largest dealt. Non-trivial = at least two closed-loop writers; distinct = SHA-1 of the case (the interleaving is the Go scheduler's)",
	Gen:     genC02TSO,
	New:     func() interface{} { return &c02TSOCase{} },
	Run:     runC02TSO,
	Engines: []string{"none"},
}

func TestC02TSO(t *testing.T) { RunProperty(t, specC02TSO) }

var spinCount uint32

// spin: busy-wait step; yields only now and then so that the windows between two atomic operations of another
// goroutine stay reachable on a machine with fewer free cores than goroutines
func spin() {
	if atomic.AddUint32(&spinCount, 1)%4096 == 0 {
		runtime.Gosched()
	}
}
