package props

// Deterministic scheduler: the harness owns the interleaving of client goroutines at shim gates and hook points.

import (
	"context"
	"fmt"
	"sort"
	"strings"
	"sync"
	"time"
)

type schedClient struct {
	id      int
	state   int // 0 running, 1 parked, 2 done
	point   string
	detail  interface{}
	resume  chan struct{}
	panicV  interface{}
	nParked int
}

// Sched runs client programs one gate at a time
type Sched struct {
	mu      sync.Mutex
	cond    *sync.Cond
	clients map[int]*schedClient
	order   []int
	// Trace is the sequence of (client, point) released
	Trace []string
	// Branch is the number of parked clients at each step (the branching factor of the schedule tree)
	Branch []int
	// OnStep is called (scheduler goroutine) each time every client is parked or done, before the next release
	OnStep func(s *Sched)
	// Filter, if set, says whether a gate call should park (default: any call carrying a client id)
	Filter func(client int, point string) bool
	// Timeout for "nobody parks or finishes"
	Timeout time.Duration
	stuck   bool
}

// NewSched creates a scheduler
func NewSched() *Sched {
	s := &Sched{clients: map[int]*schedClient{}, Timeout: 20 * time.Second}
	s.cond = sync.NewCond(&s.mu)
	return s
}

// GateFunc is the function to install as Shim.Gate
func (s *Sched) GateFunc(ctx context.Context, point string, detail interface{}) {
	id := ClientOf(ctx)
	if id < 0 {
		return
	}
	s.Park(id, point, detail)
}

// Park parks client id at point until released by the scheduler
func (s *Sched) Park(id int, point string, detail interface{}) {
	s.mu.Lock()
	c := s.clients[id]
	if c == nil || (s.Filter != nil && !s.Filter(id, point)) {
		s.mu.Unlock()
		return
	}
	c.state = 1
	c.point = point
	c.detail = detail
	c.nParked++
	ch := make(chan struct{})
	c.resume = ch
	s.cond.Broadcast()
	s.mu.Unlock()
	<-ch
}

// ParkedDetail returns the parked clients (id -> point, detail); call from OnStep only
func (s *Sched) ParkedDetail() map[int][2]interface{} {
	out := map[int][2]interface{}{}
	for id, c := range s.clients {
		if c.state == 1 {
			out[id] = [2]interface{}{c.point, c.detail}
		}
	}
	return out
}

// Run executes programs (index = client id) under the schedule given by choices; returns an error if the
// harness got stuck (not a property violation) or a client panicked.
func (s *Sched) Run(programs []func(ctx context.Context), choices []int) error {
	for i := range programs {
		s.clients[i] = &schedClient{id: i}
		s.order = append(s.order, i)
	}
	for i, p := range programs {
		c := s.clients[i]
		go func(i int, p func(ctx context.Context)) {
			defer func() {
				r := recover()
				s.mu.Lock()
				c.panicV = r
				c.state = 2
				s.cond.Broadcast()
				s.mu.Unlock()
			}()
			s.Park(i, "start", nil)
			p(ClientCtx(i))
		}(i, p)
	}
	step := 0
	for {
		// wait for quiescence
		timer := time.AfterFunc(s.Timeout, func() {
			s.mu.Lock()
			s.stuck = true
			s.cond.Broadcast()
			s.mu.Unlock()
		})
		s.mu.Lock()
		for !s.quiescentLocked() && !s.stuck {
			s.cond.Wait()
		}
		timer.Stop()
		if s.stuck {
			desc := s.describeLocked()
			s.mu.Unlock()
			return fmt.Errorf("scheduler stuck: %s", desc)
		}
		var parked []int
		for _, id := range s.order {
			c := s.clients[id]
			if c.state == 1 {
				parked = append(parked, id)
			}
			if c.panicV != nil {
				pv := c.panicV
				s.mu.Unlock()
				s.releaseAll()
				return fmt.Errorf("client %d panicked: %v", id, pv)
			}
		}
		s.mu.Unlock()
		if s.OnStep != nil {
			s.OnStep(s)
		}
		if len(parked) == 0 {
			return nil
		}
		sort.Ints(parked)
		ch := 0
		if step < len(choices) {
			ch = choices[step]
		}
		step++
		if ch < 0 {
			ch = -ch
		}
		pick := parked[ch%len(parked)]
		s.Branch = append(s.Branch, len(parked))
		s.mu.Lock()
		c := s.clients[pick]
		s.Trace = append(s.Trace, fmt.Sprintf("%d@%s", pick, c.point))
		c.state = 0
		r := c.resume
		c.resume = nil
		s.mu.Unlock()
		close(r)
	}
}

func (s *Sched) releaseAll() {
	s.mu.Lock()
	defer s.mu.Unlock()
	s.Filter = func(int, string) bool { return false }
	for _, c := range s.clients {
		if c.state == 1 && c.resume != nil {
			c.state = 0
			close(c.resume)
			c.resume = nil
		}
	}
}

func (s *Sched) quiescentLocked() bool {
	for _, c := range s.clients {
		if c.state == 0 {
			return false
		}
	}
	return true
}

func (s *Sched) describeLocked() string {
	var parts []string
	for _, id := range s.order {
		c := s.clients[id]
		parts = append(parts, fmt.Sprintf("client %d state=%d point=%s", id, c.state, c.point))
	}
	return strings.Join(parts, "; ")
}
