package props

// Metrics recorder: wraps the single real Prometheus client of the process (production wiring), records every
// emission (kind, name, sorted label names), checks label-name consistency per metric name, and delegates to the real
// client under recover so that a Prometheus panic becomes an observation instead of killing the process.

import (
	"fmt"
	"net/http"
	"runtime/debug"
	"sort"
	"strings"
	"sync"

	"google.golang.org/grpc"

	"github.com/kubewharf/kubebrain/pkg/metrics"
	"github.com/kubewharf/kubebrain/pkg/metrics/prometheus"
)

// MetricProblem is one recorded problem
type MetricProblem struct {
	Kind   string // panic | label-set-changed
	Name   string
	Detail string
}

// MetricsRecorder implements metrics.Metrics
type MetricsRecorder struct {
	real     metrics.Metrics
	mu       sync.Mutex
	labelSet map[string]string // metric kind+name -> label names first seen
	Seen     map[string]int    // metric name -> emissions
	problems []MetricProblem
}

var promOnce sync.Once
var promClient metrics.Metrics

// NewMetricsRecorder wraps the process-wide real Prometheus client
func NewMetricsRecorder() *MetricsRecorder {
	promOnce.Do(func() { promClient = prometheus.NewMetrics(metrics.Tag("cluster", "verif")) })
	return &MetricsRecorder{real: promClient, labelSet: map[string]string{}, Seen: map[string]int{}}
}

var globalLabelSets = struct {
	sync.Mutex
	m map[string]string
}{m: map[string]string{}}

func (r *MetricsRecorder) observe(kind, name string, tags []metrics.T, emit func() error) error {
	names := make([]string, 0, len(tags))
	for _, t := range tags {
		names = append(names, t.Name)
	}
	sort.Strings(names)
	ls := strings.Join(names, ",")
	// label sets are a property of the process-wide registry
	globalLabelSets.Lock()
	first, ok := globalLabelSets.m[kind+" "+name]
	if !ok {
		globalLabelSets.m[kind+" "+name] = ls
	}
	globalLabelSets.Unlock()
	r.mu.Lock()
	r.Seen[name]++
	if ok && first != ls {
		r.problems = append(r.problems, MetricProblem{Kind: "label-set-changed", Name: name, Detail: fmt.Sprintf("%s %q first emitted with labels [%s], now with [%s]", kind, name, first, ls)})
	}
	r.mu.Unlock()
	var err error
	func() {
		defer func() {
			if p := recover(); p != nil {
				st := string(debug.Stack())
				if len(st) > 1500 {
					st = st[:1500]
				}
				var vals []string
				for _, t := range tags {
					vals = append(vals, fmt.Sprintf("%s=%q", t.Name, t.Value))
				}
				r.mu.Lock()
				r.problems = append(r.problems, MetricProblem{Kind: "panic", Name: name, Detail: fmt.Sprintf("emitting %s %q with labels {%s} panicked inside the Prometheus client: %v", kind, name, strings.Join(vals, ", "), p)})
				r.mu.Unlock()
			}
		}()
		err = emit()
	}()
	return err
}

// Problems returns and clears the recorded problems
func (r *MetricsRecorder) Problems() []MetricProblem {
	r.mu.Lock()
	defer r.mu.Unlock()
	p := r.problems
	r.problems = nil
	return p
}

// GetGrpcServerOption implements metrics.Metrics
func (r *MetricsRecorder) GetGrpcServerOption() []grpc.ServerOption { return nil }

// GetHttpHandlers implements metrics.Metrics
func (r *MetricsRecorder) GetHttpHandlers() map[string]http.Handler { return r.real.GetHttpHandlers() }

// EmitCounter implements metrics.Metrics
func (r *MetricsRecorder) EmitCounter(name string, value interface{}, tags ...metrics.T) error {
	return r.observe("counter", name, tags, func() error { return r.real.EmitCounter(name, value, tags...) })
}

// EmitGauge implements metrics.Metrics
func (r *MetricsRecorder) EmitGauge(name string, value interface{}, tags ...metrics.T) error {
	return r.observe("gauge", name, tags, func() error { return r.real.EmitGauge(name, value, tags...) })
}

// EmitHistogram implements metrics.Metrics
func (r *MetricsRecorder) EmitHistogram(name string, value interface{}, tags ...metrics.T) error {
	return r.observe("histogram", name, tags, func() error { return r.real.EmitHistogram(name, value, tags...) })
}
