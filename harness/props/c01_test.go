package props

import (
	"fmt"
	"strings"
	"testing"

	"pgregory.net/rapid"
)

// C01 — conditional writes never lose an update
// C02 — revisions are unique and agree with real time and with each key's history
// C04 — every issued revision is resolved: reads never overtake a write and never stall
// All three run the concurrent executor (conc.go); they differ in generator emphasis and in the deciding oracle.

func genConcOp(t *rapid.T, nkeys int, futurePct int) WOp {
	kind := rapid.SampledFrom([]string{"create", "create", "update", "update", "update", "delete", "delete"}).Draw(t, "op")
	op := WOp{Kind: kind, K: DrawIntn(t, nkeys, "key"), V: rapid.IntRange(0, 7).Draw(t, "val")}
	if kind != "create" {
		if DrawBool(t, futurePct, "future") {
			op.Exp = rapid.SampledFrom([]string{"future", "far", "max", "half"}).Draw(t, "fexp")
		} else {
			op.Exp = rapid.SampledFrom([]string{"latest", "latest", "latest", "latest", "ok", "ok", "mine", "stale", "zero", "zero", "soon"}).Draw(t, "exp")
		}
	}
	return op
}

func genConcCase(t *rapid.T, futurePct, faultPct int, maxClients int) *ConcCase {
	c := &ConcCase{Engine: EnvStr("VERIF_ENGINE", EngMem)}
	c.Free = EnvStr("VERIF_FREE", "") == "1"
	c.API = EnvStr("VERIF_API", "")
	if c.Engine != EngMem && !c.Free {
		c.PreCommit = DrawBool(t, 50, "precommit")
	}
	nk := rapid.IntRange(1, 2).Draw(t, "nkeys")
	perm := rapid.Permutation(KeyFamilies[:6]).Draw(t, "keys")
	c.Keys = append([]string{}, perm[:nk]...)
	// prelude: establishes the initial state of each key: never existed, live, deleted, deleted-and-compacted
	np := rapid.IntRange(0, 6).Draw(t, "nprelude")
	for i := 0; i < np; i++ {
		op := genWOp(t, nk)
		if op.Kind != "create" && DrawBool(t, 80, "preOk") {
			op.Exp = "ok"
		}
		c.Prelude = append(c.Prelude, *op)
	}
	c.PreCompact = DrawBool(t, 25, "precompact")
	ncl := rapid.IntRange(2, maxClients).Draw(t, "nclients")
	total := 0
	for i := 0; i < ncl; i++ {
		no := rapid.IntRange(1, 4).Draw(t, "nops")
		var ops []WOp
		for j := 0; j < no; j++ {
			ops = append(ops, genConcOp(t, nk, futurePct))
		}
		total += no
		c.Clients = append(c.Clients, ops)
	}
	c.Sched = DrawChoices(t, 8*total+8, "sched")
	c.ReadOwn = DrawBool(t, 40, "readOwn")
	if !c.Free && (EnvStr("VERIF_COMPACTOR", "") == "1" || DrawBool(t, 20, "compactor")) {
		c.Compactor = true
		// the compaction's own storage calls need schedule entries too
		c.Sched = append(c.Sched, DrawChoices(t, 40, "sched2")...)
	}
	if faultPct > 0 && DrawBool(t, faultPct, "withFaults") {
		// (a storage error on the compaction's iterator makes the scanner back off for seconds: no compactor here)
		c.Compactor = false
		nf := rapid.IntRange(1, 3).Draw(t, "nfaults")
		for i := 0; i < nf; i++ {
			c.Faults = append(c.Faults, ConcFault{
				Kind: rapid.SampledFrom([]string{"commit", "commit", "iter", "unknown-applied", "unknown-lost", "repair-error"}).Draw(t, "fkind"),
				At:   rapid.IntRange(0, 2*total).Draw(t, "fat"),
			})
		}
	}
	return c
}

func concLabels(h *ConcHistory, st *CaseStats) (nOK, nFail, nErr int) {
	st.Label("engine:" + h.Case.Engine)
	if h.Case.Free {
		st.Label("mode:free-running")
	} else {
		st.Label("mode:gated")
	}
	if h.Case.PreCommit {
		st.Label("gate:precommit")
	}
	for _, r := range h.Ops {
		switch r.Outcome {
		case "ok":
			nOK++
		case "fail":
			nFail++
		default:
			nErr++
		}
	}
	if h.Overlap {
		st.Label("overlapping-ops-on-one-key")
	}
	if h.OutOfOrder {
		st.Label("commits-out-of-allocation-order")
	}
	if h.Case.PreCompact {
		st.Label("initial:compacted")
	}
	for _, k := range h.Env.Keys {
		if _, ok := h.PreModel.Live(k); ok {
			st.Label("initial:live")
		} else if _, ok := h.PreModel.Latest(k); ok {
			st.Label("initial:deleted")
		} else {
			st.Label("initial:never-existed")
		}
	}
	return
}

func runC01(ci interface{}, st *CaseStats) error {
	c := ci.(*ConcCase)
	h, err := RunConc(c)
	if h != nil && h.Env != nil {
		defer h.Env.Close()
	}
	if err != nil {
		return err
	}
	nOK, nFail, _ := concLabels(h, st)
	if err := h.CheckChain(); err != nil {
		return fmt.Errorf("%v\nhistory:\n%s", err, h.Describe())
	}
	if err := h.CheckWritable(); err != nil {
		return fmt.Errorf("%v\nhistory:\n%s", err, h.Describe())
	}
	if h.CompactErr != nil {
		return fmt.Errorf("concurrent compaction returned %v", h.CompactErr)
	}
	if c.Compactor {
		st.Label("with-concurrent-compaction")
	}
	if nFail > 0 {
		st.Label("has-failed-condition")
	}
	if h.Overlap && nOK > 0 {
		st.Nontrivial()
	}
	return nil
}

var specC01 = &Spec{
	ID:   "C01",
	Rule: "case = 1..2 shared keys, a prelude establishing each key's initial state (never existed / live / deleted, optionally compacted), 2..4 clients x 1..4 create/update/delete requests whose expected revision is the latest observed head, the prelude's head, the client's own last write, stale, zero or from the future, and a schedule (sequence of choices among parked clients at storage gates: get / iter / commit, plus the point between a transaction's reads and the engine commit on Badger and TiKV); free-running shards run the same programs on real goroutines. Oracle over the recorded history + shim commit log + final reads + raw store: chain in revision order, final state = last link, version records = exactly the links, no trace of failed/errored requests, every failed condition justified inside its window (gated mode). Non-trivial = at least two requests on one key with overlapping execution windows and at least one success; distinct = SHA-1 of the case (program + schedule)",
	Gen:  func(t *rapid.T) interface{} { return genConcCase(t, 8, 0, 4) },
	New:  func() interface{} { return &ConcCase{} },
	Run:  runC01,
	Assumptions: []string{
		"interleavings are explored at the granularity of storage calls (and the pre-commit point on Badger/TiKV); finer interleavings only in free-running shards",
		"no storage fault is injected here (C04, C09)",
	},
	Engines: []string{EngMem, EngBadger, EngTiKV},
}

func TestC01(t *testing.T) { RunProperty(t, specC01) }

func runC02(ci interface{}, st *CaseStats) error {
	c := ci.(*ConcCase)
	h, err := RunConc(c)
	if h != nil && h.Env != nil {
		defer h.Env.Close()
	}
	if err != nil {
		return err
	}
	_, _, _ = concLabels(h, st)
	if err := h.CheckRevisions(); err != nil {
		return fmt.Errorf("%v\nhistory:\n%s", err, h.Describe())
	}
	// per-key strictly increasing modification revisions come from the chain walk
	if err := h.CheckChain(); err != nil {
		return fmt.Errorf("%v\nhistory:\n%s", err, h.Describe())
	}
	if err := h.CollectEvents(); err != nil {
		return fmt.Errorf("%v\nhistory:\n%s", err, h.Describe())
	}
	if err := h.CheckEvents(); err != nil {
		return fmt.Errorf("%v\nhistory:\n%s", err, h.Describe())
	}
	concurrent, failedWithKv := false, false
	for _, a := range h.Ops {
		if a.Outcome == "fail" && a.HasKv {
			failedWithKv = true
			st.Label("failed-guarded-op-returns-kv")
		}
		for _, b := range h.Ops {
			if a != b && a.InvTick < b.RespTick && b.InvTick < a.RespTick {
				concurrent = true
			}
		}
	}
	if concurrent && failedWithKv {
		st.Nontrivial()
	}
	return nil
}

// probeC02RangeAhead: one client's create is parked at its commit, another client creates a different key and reads it
// back, as a single-key range, at the revision it was answered with (ahead of the committed revision)
func probeC02RangeAhead() (bool, string) {
	base := ConcCase{Engine: EngMem, Keys: []string{"a", "b"}, Clients: [][]WOp{{{Kind: "create", K: 0}}, {{Kind: "create", K: 1}}}, ReadOwn: true}
	for mask := 0; mask < 256; mask++ {
		c := base
		c.Sched = nil
		for i := 0; i < 8; i++ {
			c.Sched = append(c.Sched, (mask>>uint(i))&1)
		}
		h, err := RunConc(&c)
		if h != nil && h.Env != nil {
			rerr := h.CheckRevisions()
			h.Env.Close()
			if err == nil && rerr != nil && strings.Contains(rerr.Error(), "range read back at revision") {
				return true, rerr.Error()
			}
		}
	}
	return false, ""
}

var specC02 = &Spec{
	ID:   "C02",
	Rule: "cases as C01 with 2..6 clients. Own revision of an attempt = header revision (successes, failed creates) or the revision decoded from the version record of any batch the attempt sent to storage (shim log). Oracle: own revisions pairwise distinct and greater than every revision issued before; if A returned before B was invoked (logical clock ticking at every invocation and response) then own(A) < own(B), or < header(B) when B's own revision is unknown; per-key strictly increasing modification revisions (chain walk); header >= revision of every kv in the response; each delivered event carries the revision of the write it reports. Non-trivial = at least two concurrent attempts and at least one failed update/delete whose response carries a kv; distinct = SHA-1 of the case",
	Gen:  func(t *rapid.T) interface{} { return genConcCase(t, 8, 0, 6) },
	New:  func() interface{} { return &ConcCase{} },
	Run:  runC02,
	Probes: map[string]func() (bool, string){
		"range-read-ahead-of-committed-revision-header-below-kv": probeC02RangeAhead,
	},
	Assumptions: []string{"attempts that fail before reaching storage reveal only an upper bound of their own revision (their header)"},
	Engines:     []string{EngMem, EngBadger, EngTiKV},
}

func TestC02(t *testing.T) { RunProperty(t, specC02) }

func runC04(ci interface{}, st *CaseStats) error {
	c := ci.(*ConcCase)
	h, err := RunConc(c)
	if h != nil && h.Env != nil {
		defer h.Env.Close()
	}
	if err != nil {
		return err
	}
	nOK, nFail, nErr := concLabels(h, st)
	_ = nOK
	if h.SafetyErr != nil {
		return fmt.Errorf("reads overtook a write: %v\nhistory:\n%s", h.SafetyErr, h.Describe())
	}
	if err := h.CollectEvents(); err != nil {
		return fmt.Errorf("%v\nhistory:\n%s", err, h.Describe())
	}
	if !h.UnknownFaults {
		// (with unknown outcomes the repaired writes add events of their own; convergence is C09's business)
		if err := h.CheckEvents(); err != nil {
			return fmt.Errorf("%v\nhistory:\n%s", err, h.Describe())
		}
	} else {
		st.Label("unknown-outcome-injected")
		if h.RepairFaulted {
			st.Label("repair-write-failed-once")
		}
	}
	// at quiescence the read revision has reached the highest revision handed out
	var maxRev uint64
	for _, r := range h.Ops {
		if r.OwnRev > maxRev {
			maxRev = r.OwnRev
		}
		if r.Outcome != "err" && r.Rev > maxRev && !r.FutureClass {
			maxRev = r.Rev
		}
	}
	if cur := h.Env.B.GetCurrentRevision(); cur < maxRev {
		return fmt.Errorf("at quiescence the read revision is %d but revision %d was handed out\nhistory:\n%s", cur, maxRev, h.Describe())
	}
	rejected := 0
	for _, r := range h.Ops {
		if r.FutureClass && r.Outcome == "err" {
			rejected++
		}
		if r.Faulted {
			st.Label("storage-error-injected")
		}
	}
	if rejected > 0 {
		st.Label("rejected-future-revision")
	}
	if nFail > 0 {
		st.Label("failed-condition")
	}
	if (nFail > 0 || nErr > 0) && h.OutOfOrder {
		st.Nontrivial()
	}
	return nil
}

func probeC04FutureStall() (bool, string) {
	c := &ConcCase{Engine: EngMem, Keys: []string{"a"}, Prelude: []WOp{{Kind: "create", K: 0}},
		Clients: [][]WOp{{{Kind: "update", K: 0, Exp: "far"}}, {{Kind: "delete", K: 0, Exp: "max"}}}, Sched: []int{0, 1, 0, 1, 0, 1, 0, 1}}
	h, err := RunConc(c)
	if h != nil && h.Env != nil {
		defer h.Env.Close()
	}
	if err != nil {
		return false, err.Error()
	}
	if err := h.CollectEvents(); err != nil {
		return true, err.Error()
	}
	return false, ""
}

var specC04 = &Spec{
	ID:   "C04",
	Rule: "cases as C01 plus requests that are rejected (expected revision above every issued revision: +1 beyond the phase, +2^40, 2^63, 2^64-1 — the values negative etcd revisions are cast to) in 30% of guarded ops, and in 35% of cases 1..3 storage faults at generated positions: plain errors on commits / iterators, 'outcome unknown' answers (landed or lost) on commits, a definite error on the background repair's rewrite. Safety is sampled at every scheduler step: the read revision must be below the revision of every write parked at its commit gate or between its transaction's reads and the engine commit. Progress at quiescence: a probe write becomes readable, is visible in List at the latest revision and its event reaches a watch opened before the phase; the read revision has reached the highest revision handed out; delivered events = acknowledged writes. Non-trivial = at least one non-success outcome (failed condition, injected error, rejected expectation) and at least one pair of commits finishing out of allocation order; distinct = SHA-1 of the case",
	Gen:  func(t *rapid.T) interface{} { return genConcCase(t, 30, 35, 4) },
	New:  func() interface{} { return &ConcCase{} },
	Run:  runC04,
	Probes: map[string]func() (bool, string){
		"future-expected-revision-stalls-sequencer": probeC04FutureStall,
	},
	Assumptions: []string{"progress is checked as bounded progress at quiescence (10 s + re-check, >= 400x the expected latency)"},
	Engines:     []string{EngMem, EngBadger, EngTiKV},
}

func TestC04(t *testing.T) { RunProperty(t, specC04) }

// C07, third mode: compaction scheduled against concurrent writers on the keys being compacted
var specC07Conc = &Spec{
	ID:    "C07",
	Level: "fault_enumeration",
	Rule:  "concurrent mode: C01's programs (2..4 clients on 1..2 keys whose prelude leaves multi-version keys and deletions) plus a compactor client; the schedule interleaves the compaction's record update, iterator creation and every single delete with the writers' storage calls. Oracle: chain / final-state / raw-store oracle of C01 (superseded versions and deletions may be gone, a live key's newest version and index record may not), then every key must accept one more write with the right expectation. Non-trivial = overlapping writes on one key with at least one success while the compaction ran; distinct = SHA-1 of the case",
	Gen: func(t *rapid.T) interface{} {
		c := genConcCase(t, 0, 0, 4)
		if !c.Free && !c.Compactor {
			c.Compactor = true
			c.Sched = append(c.Sched, DrawChoices(t, 40, "sched2")...)
		}
		// make sure there is something to compact
		if len(c.Prelude) < 3 {
			c.Prelude = append(c.Prelude, WOp{Kind: "create", K: 0}, WOp{Kind: "update", K: 0, Exp: "ok"}, WOp{Kind: "delete", K: 0, Exp: "ok"})
		}
		c.PreCompact = false
		return c
	},
	New:     func() interface{} { return &ConcCase{} },
	Run:     runC01,
	Engines: []string{EngMem, EngTiKV, EngBadger},
}

func TestC07Conc(t *testing.T) { RunProperty(t, specC07Conc) }
