package props

import (
	"context"
	"fmt"
	"sync"
	"sync/atomic"
	"testing"
	"time"

	proto "github.com/kubewharf/kubebrain-client/api/v2rpc"
	"pgregory.net/rapid"

	"github.com/kubewharf/kubebrain/pkg/backend"
	"github.com/kubewharf/kubebrain/pkg/verifhook"
)

// C09, race mode. "Compaction never advances past an unresolved revision" is a statement about two activities that run
// side by side: the sequencer that queues a write of unknown outcome and then publishes its revision, and a compaction
// that reads the published revision and the oldest queued one. The other C09 modes place compactions between
// requests. Here 1..6 compactor goroutines call Compact(0) without pause while a client issues deletes whose commits
// land but are answered "outcome unknown" — every such delete gives each compactor one chance to look at the node
// exactly while the sequencer is between the two steps.
// Oracle: after the repair queue has drained, every delete that landed has produced its DELETE event (a compaction that
// ran past the unresolved revision removes the deletion record, the repair then finds nothing to report), the watch
// stream is strictly increasing and the final store equals the model.

type c09RaceCase struct {
	Engine     string
	Compactors int
	// Rounds: number of keys that are created and then deleted with an unknown (landed) outcome
	Rounds int
	// Lost: every n-th delete's commit is answered "unknown" and did NOT land (0 = never)
	Lost int
}

func genC09Race(t *rapid.T) interface{} {
	c := &c09RaceCase{Engine: EnvStr("VERIF_ENGINE", EngMem)}
	c.Compactors = rapid.SampledFrom([]int{4, 2, 6, 1}).Draw(t, "compactors")
	c.Rounds = rapid.SampledFrom([]int{300, 150, 600}).Draw(t, "rounds")
	c.Lost = rapid.SampledFrom([]int{0, 0, 5, 2}).Draw(t, "lost")
	return c
}

func runC09Race(ci interface{}, st *CaseStats) error {
	c := ci.(*c09RaceCase)
	backend.SetRetryIntervalsForVerif(2*time.Millisecond, time.Millisecond)
	env, err := NewSeqEnv(SeqOpts{Engine: c.Engine, Keys: []string{FullKey("r/x")}, UseShim: true, Backend: BackendOpts{CacheSize: 8192}})
	if err != nil {
		return Inconclusivef("engine: %v", err)
	}
	defer env.Close()
	ctx := context.Background()
	wch, err := env.B.Watch(ctx, Prefix+"/r/", env.Init+1)
	if err != nil {
		return fmt.Errorf("watch: %v", err)
	}
	type ev struct {
		typ proto.Event_EventType
		key string
		rev uint64
	}
	var evMu sync.Mutex
	var events []ev
	go func() {
		for batch := range wch {
			evMu.Lock()
			for _, e := range batch {
				events = append(events, ev{e.Type, string(e.Kv.Key), e.Revision})
			}
			evMu.Unlock()
		}
	}()
	// which commit is the delete under test, and what happens to it
	var rewrites int64 // commits of the repair that write a deletion record again
	var armed int32    // 0 none, 1 landed-unknown, 2 lost-unknown
	var armedKey atomic.Value
	armedKey.Store("")
	env.Shim.OnCommit = func(ci *CommitInfo) Decision {
		// the client's delete of the armed key (not the repair's rewrite of an earlier one, not a compaction)
		if string(ci.RawKey) != armedKey.Load().(string) {
			for _, op := range ci.Ops {
				if string(op.Val) == "tombstone" {
					atomic.AddInt64(&rewrites, 1)
				}
			}
			return Pass
		}
		for _, op := range ci.Ops {
			if string(op.Val) == "tombstone" {
				switch atomic.SwapInt32(&armed, 0) {
				case 1:
					return UncertainApplied
				case 2:
					return UncertainNotApplied
				}
				// the repair of this very key, already under way before the client has its answer
				atomic.AddInt64(&rewrites, 1)
			}
		}
		return Pass
	}
	defer func() { env.Shim.OnCommit = nil }()
	var stop int32
	var cwg sync.WaitGroup
	var compactions int64
	var compactErr atomic.Value
	for i := 0; i < c.Compactors; i++ {
		cwg.Add(1)
		go func() {
			defer cwg.Done()
			for atomic.LoadInt32(&stop) == 0 {
				if _, err := env.B.Compact(ctx, 0); err != nil {
					compactErr.Store(err.Error())
				}
				atomic.AddInt64(&compactions, 1)
			}
		}()
	}
	landed := map[string]bool{} // deletes that landed: a DELETE event is due
	live := map[string]uint64{}
	var maxRev uint64
	fail := func(err error) error {
		atomic.StoreInt32(&stop, 1)
		cwg.Wait()
		return err
	}
	for i := 0; i < c.Rounds; i++ {
		key := FullKey(fmt.Sprintf("r/%05d", i))
		cr, err := env.B.Create(ctx, &proto.CreateRequest{Key: []byte(key), Value: []byte("v")})
		if err != nil || !cr.Succeeded {
			return fail(fmt.Errorf("round %d: create: %v %v", i, cr, err))
		}
		maxRev = cr.Header.Revision
		kind := int32(1)
		if c.Lost > 0 && i%c.Lost == c.Lost-1 {
			kind = 2
		}
		armedKey.Store(key)
		atomic.StoreInt32(&armed, kind)
		dr, derr := env.B.Delete(ctx, &proto.DeleteRequest{Key: []byte(key), Revision: cr.Header.Revision})
		armedKey.Store("")
		if atomic.LoadInt32(&armed) != 0 {
			return fail(Inconclusivef("round %d: the delete did not reach the engine (%v %v)", i, dr, derr))
		}
		if derr == nil {
			return fail(fmt.Errorf("round %d: a delete whose commit was answered 'outcome unknown' was answered %v without an error", i, dr))
		}
		if kind == 1 {
			landed[key] = true
		} else {
			live[key] = cr.Header.Revision
		}
		maxRev++
	}
	atomic.StoreInt32(&stop, 1)
	cwg.Wait()
	if e, _ := compactErr.Load().(string); e != "" {
		st.Label("a-compaction-returned-an-error")
	}
	// the sequencer works through the revisions in order: once a write issued now is readable, every unknown-outcome
	// delete before it has been queued for repair (an empty queue before that moment says nothing)
	pr, err := env.B.Create(ctx, &proto.CreateRequest{Key: []byte(FullKey("r/pre-fence")), Value: []byte("p")})
	if err != nil || !pr.Succeeded {
		return fmt.Errorf("pre-fence: %v %v", pr, err)
	}
	if !WaitCommitted(env.B, pr.Header.Revision, 20*time.Second) {
		return fmt.Errorf("the read revision did not reach %d in 20s (it is %d)", pr.Header.Revision, env.B.GetCurrentRevision())
	}
	// drain: the repair loop runs every few milliseconds
	deadline := time.Now().Add(20 * time.Second)
	for backend.RetryQueueLenForVerif(env.B) > 0 && time.Now().Before(deadline) {
		time.Sleep(2 * time.Millisecond)
	}
	if n := backend.RetryQueueLenForVerif(env.B); n > 0 {
		return fmt.Errorf("%d unknown-outcome writes still wait for repair, the queue did not drain in 20s", n)
	}
	// a fence event closes the stream check
	fr, err := env.B.Create(ctx, &proto.CreateRequest{Key: []byte(FullKey("r/fence")), Value: []byte("f")})
	if err != nil || !fr.Succeeded {
		return fmt.Errorf("fence: %v %v", fr, err)
	}
	fdl := time.Now().Add(20 * time.Second)
	for {
		evMu.Lock()
		got := len(events) > 0 && events[len(events)-1].key == FullKey("r/fence")
		evMu.Unlock()
		if got {
			break
		}
		if time.Now().After(fdl) {
			return fmt.Errorf("the fence event did not arrive in 20s")
		}
		time.Sleep(time.Millisecond)
	}
	evMu.Lock()
	defer evMu.Unlock()
	deleted := map[string]bool{}
	var prev uint64
	for _, e := range events {
		if e.rev <= prev {
			return fmt.Errorf("watch stream not increasing: revision %d after %d", e.rev, prev)
		}
		prev = e.rev
		if e.typ == proto.Event_DELETE {
			deleted[e.key] = true
		}
	}
	missing := 0
	first := ""
	for k := range landed {
		if !deleted[k] {
			missing++
			if first == "" || k < first {
				first = k
			}
		}
	}
	if missing > 0 {
		// what the store and the stream hold for the first such key
		diag := ""
		if all, derr := DumpAll(env.Eng.KV); derr == nil {
			for _, rec := range all {
				if len(rec.Key) < 13 {
					continue
				}
				if uk, rev, e := shimCoder.Decode(rec.Key); e == nil && string(uk) == first {
					diag += fmt.Sprintf(" [record rev=%d val=%q]", rev, trunc(rec.Val))
				}
			}
		}
		for _, e := range events {
			if e.key == first {
				diag += fmt.Sprintf(" [event %v @%d]", e.typ, e.rev)
			}
		}
		diag += fmt.Sprintf(" [read revision %d, highest handed out >= %d; the repair committed %d deletion records again]", env.B.GetCurrentRevision(), fr.Header.Revision, atomic.LoadInt64(&rewrites))
		return fmt.Errorf("(%s) %d of %d deletes that landed (answered 'outcome unknown') never produced a DELETE event although the repair queue is empty, e.g. %q — %d compactions ran meanwhile on %d goroutines", diag, missing, len(landed), first, atomic.LoadInt64(&compactions), c.Compactors)
	}
	for k := range live {
		if deleted[k] {
			return fmt.Errorf("a DELETE event was delivered for %q whose delete never landed", k)
		}
	}
	r, err := env.B.List(ctx, &proto.RangeRequest{Key: []byte(FullKey("r/")), End: backend.PrefixEnd([]byte(FullKey("r/")))})
	if err != nil {
		return fmt.Errorf("final list: %v", err)
	}
	if len(r.Kvs) != len(live)+2 {
		return fmt.Errorf("the store lists %d keys, %d deletes did not land (+ the two fences)", len(r.Kvs), len(live))
	}
	st.Labelf("compactors:%d", c.Compactors)
	st.Count("race_compactions", int(atomic.LoadInt64(&compactions)))
	st.Count("race_unknown_deletes", c.Rounds)
	if atomic.LoadInt64(&compactions) >= int64(c.Rounds) {
		st.Nontrivial()
	}
	return nil
}

var specC09Race = &Spec{
	ID:      "C09",
	Level:   "fault_enumeration",
	Rule:    "race mode: case = 1..6 goroutines compacting at the current revision without pause while 150..600 keys are created and deleted, each delete's commit landing (or, every n-th, not landing) and being answered 'outcome unknown'. Oracle: once the repair queue is empty every landed delete has produced its DELETE event, none was produced for a delete that did not land, the stream is increasing, the store lists exactly the keys whose delete did not land. Non-trivial = at least as many compactions as unknown-outcome deletes ran; distinct = SHA-1 of the case (the interleaving is the Go scheduler's)",
	Gen:     genC09Race,
	New:     func() interface{} { return &c09RaceCase{} },
	Run:     runC09Race,
	Engines: []string{EngMem},
}

func TestC09Race(t *testing.T) { RunProperty(t, specC09Race) }

// C09, straddle mode: the harness owns the schedule. A compaction is held at the point where it has looked at the repair
// queue (yield point retry.minRevisionRead, build tag verif); meanwhile a write lands with an unknown outcome and the
// sequencer queues it and publishes its revision; then the compaction goes on. Whatever order the compaction reads the
// node's state in, it must not run past the unresolved revision.
// Oracle: the compaction's effective revision (response header) is below the unresolved revision while that one is still
// queued; after the repair the DELETE / PUT event of a landed write is delivered and the store equals the model.

type c09StraddleCase struct {
	Engine string
	Pre    []WOp  // history before
	Kind   string // create | update | delete: the write whose outcome is unknown
	Landed bool
	// CReq: what the compaction asks for: 0 (= current) or a revision far above
	CAbove bool
}

func genC09Straddle(t *rapid.T) interface{} {
	c := &c09StraddleCase{Engine: EnvStr("VERIF_ENGINE", EngMem)}
	n := rapid.IntRange(0, 6).Draw(t, "npre")
	for i := 0; i < n; i++ {
		op := genWOp(t, 3)
		if op.Kind != "create" {
			op.Exp = "ok"
		}
		c.Pre = append(c.Pre, *op)
	}
	c.Kind = rapid.SampledFrom([]string{"delete", "delete", "update", "create"}).Draw(t, "kind")
	c.Landed = DrawBool(t, 75, "landed")
	c.CAbove = DrawBool(t, 30, "cabove")
	return c
}

func runC09Straddle(ci interface{}, st *CaseStats) error {
	c := ci.(*c09StraddleCase)
	if !verifhook.Enabled {
		return Inconclusivef("yield points are not compiled in")
	}
	backend.SetRetryIntervalsForVerif(time.Millisecond, time.Hour)
	keys := []string{FullKey("s/a"), FullKey("s/b"), FullKey("s/c"), FullKey("s/target")}
	env, err := NewSeqEnv(SeqOpts{Engine: c.Engine, Keys: keys, UseShim: true, Backend: BackendOpts{CacheSize: 1024}})
	if err != nil {
		return Inconclusivef("engine: %v", err)
	}
	defer env.Close()
	ctx := context.Background()
	for i, op := range c.Pre {
		if _, err := env.DoWrite(op); err != nil {
			return fmt.Errorf("history %d: %v", i, err)
		}
	}
	// the target key: present for update/delete, absent for create
	const target = 3
	if c.Kind != "create" {
		if _, err := env.DoWrite(WOp{Kind: "create", K: target}); err != nil {
			return err
		}
	}
	if err := env.Settle(); err != nil {
		return err
	}
	wch, err := env.B.Watch(ctx, Prefix+"/s/", env.LastRev+1)
	if err != nil {
		return fmt.Errorf("watch: %v", err)
	}
	var armed int32 = 1
	parked, release := make(chan struct{}, 1), make(chan struct{})
	verifhook.Set(func(name string, owner interface{}, arg interface{}) {
		if name == "retry.minRevisionRead" && atomic.CompareAndSwapInt32(&armed, 1, 0) {
			parked <- struct{}{}
			<-release
		}
	})
	defer verifhook.Set(nil)
	type cres struct {
		rev uint64
		err error
	}
	cdone := make(chan cres, 1)
	go func() {
		var req uint64
		if c.CAbove {
			req = env.LastRev + 1000
		}
		r, err := env.B.Compact(ctx, req)
		if err != nil {
			cdone <- cres{0, err}
			return
		}
		cdone <- cres{r.Header.Revision, nil}
	}()
	select {
	case <-parked:
	case r := <-cdone:
		close(release)
		return Inconclusivef("the compaction finished without looking at the repair queue (revision %d, %v)", r.rev, r.err)
	case <-time.After(10 * time.Second):
		close(release)
		return Inconclusivef("the compaction did not reach the yield point within 10s")
	}
	// the write of unknown outcome
	var fired int32
	env.Shim.OnCommit = func(ci *CommitInfo) Decision {
		if string(ci.RawKey) == keys[target] && atomic.CompareAndSwapInt32(&fired, 0, 1) {
			if c.Landed {
				return UncertainApplied
			}
			return UncertainNotApplied
		}
		return Pass
	}
	live, _ := env.M.Live(keys[target])
	val := []byte("unknown-outcome")
	var werr error
	var hdr uint64
	switch c.Kind {
	case "create":
		var r *proto.CreateResponse
		r, werr = env.B.Create(ctx, &proto.CreateRequest{Key: []byte(keys[target]), Value: val})
		if r != nil {
			hdr = r.Header.Revision
		}
	case "update":
		var r *proto.UpdateResponse
		r, werr = env.B.Update(ctx, &proto.UpdateRequest{Kv: &proto.KeyValue{Key: []byte(keys[target]), Value: val, Revision: live.Rev}})
		if r != nil {
			hdr = r.Header.Revision
		}
	default:
		var r *proto.DeleteResponse
		r, werr = env.B.Delete(ctx, &proto.DeleteRequest{Key: []byte(keys[target]), Revision: live.Rev})
		if r != nil {
			hdr = r.Header.Revision
		}
	}
	env.Shim.OnCommit = nil
	if atomic.LoadInt32(&fired) == 0 {
		close(release)
		<-cdone
		return Inconclusivef("the write did not reach the engine")
	}
	if werr == nil {
		close(release)
		<-cdone
		return fmt.Errorf("a %s whose commit was answered 'outcome unknown' was answered without an error (header %d)", c.Kind, hdr)
	}
	u := env.LastRev + 1 // the revision of the unresolved write
	env.LastRev = u
	// the sequencer queues it and publishes its revision
	if !WaitCommitted(env.B, u, 10*time.Second) {
		close(release)
		<-cdone
		return fmt.Errorf("the read revision did not reach the unresolved revision %d within 10s", u)
	}
	if n := backend.RetryQueueLenForVerif(env.B); n != 1 {
		close(release)
		<-cdone
		return Inconclusivef("repair queue holds %d entries, expected the one write", n)
	}
	close(release)
	var cr cres
	select {
	case cr = <-cdone:
	case <-time.After(20 * time.Second):
		return fmt.Errorf("the compaction did not return within 20s")
	}
	if cr.err != nil {
		return fmt.Errorf("the compaction returned error %v", cr.err)
	}
	if cr.rev >= u {
		return fmt.Errorf("a compaction that overlapped the arrival of an unknown-outcome %s (revision %d, landed=%v) reports effective revision %d: it ran past the unresolved revision while the write was still waiting for repair", c.Kind, u, c.Landed, cr.rev)
	}
	// repair, then the event
	time.Sleep(1500 * time.Microsecond)
	for i := 0; i < 50 && backend.RetryQueueLenForVerif(env.B) > 0; i++ {
		backend.RetryNowForVerif(env.B)
		time.Sleep(1500 * time.Microsecond)
	}
	if n := backend.RetryQueueLenForVerif(env.B); n > 0 {
		return fmt.Errorf("the repair queue did not drain (%d entries)", n)
	}
	fr, err := env.B.Create(ctx, &proto.CreateRequest{Key: []byte(FullKey("s/fence")), Value: []byte("f")})
	if err != nil || !fr.Succeeded {
		return fmt.Errorf("fence: %v %v", fr, err)
	}
	var got []*proto.Event
	dl := time.After(20 * time.Second)
collect:
	for {
		select {
		case batch, ok := <-wch:
			if !ok {
				return fmt.Errorf("the watch was closed")
			}
			for _, e := range batch {
				if string(e.Kv.Key) == FullKey("s/fence") {
					break collect
				}
				got = append(got, e)
			}
		case <-dl:
			return fmt.Errorf("the fence event did not arrive in 20s")
		}
	}
	wantEvent := c.Landed
	seen := false
	for _, e := range got {
		if string(e.Kv.Key) == keys[target] {
			seen = true
			if c.Kind == "delete" && e.Type != proto.Event_DELETE {
				return fmt.Errorf("the landed delete was reported as %v", e.Type)
			}
		}
	}
	if wantEvent && !seen {
		return fmt.Errorf("the %s landed (answered 'outcome unknown', revision %d) but no event for it was ever delivered (compaction overlapped at effective revision %d)", c.Kind, u, cr.rev)
	}
	if !wantEvent && seen {
		return fmt.Errorf("an event was delivered for a %s that never landed", c.Kind)
	}
	g, err := env.B.Get(ctx, &proto.GetRequest{Key: []byte(keys[target])})
	if err != nil {
		return fmt.Errorf("final get: %v", err)
	}
	presentWant := (c.Kind != "delete") == c.Landed
	if c.Kind == "update" {
		presentWant = true
	}
	if (g.Kv != nil) != presentWant {
		return fmt.Errorf("after the repair the target key is present=%v, want %v (%s, landed=%v)", g.Kv != nil, presentWant, c.Kind, c.Landed)
	}
	st.Labelf("unknown-%s-landed:%v", c.Kind, c.Landed)
	if c.Landed {
		st.Nontrivial()
	}
	return nil
}

var specC09Straddle = &Spec{
	ID:      "C09",
	Level:   "fault_enumeration",
	Rule:    "straddle mode: case = 0..6 earlier writes, then a compaction (at the current revision or far above) that is held right after it has looked at the repair queue while a create / update / delete lands (or not) with an unknown outcome and the sequencer queues and publishes it; then the compaction goes on. Oracle: the compaction's effective revision stays below the unresolved revision; after the repair a landed write's event is delivered, a lost one's is not, the key's state matches. Non-trivial = the write landed; distinct = SHA-1 of the case",
	Gen:     genC09Straddle,
	New:     func() interface{} { return &c09StraddleCase{} },
	Run:     runC09Straddle,
	Engines: []string{EngMem, EngTiKV},
}

func TestC09Straddle(t *testing.T) { RunProperty(t, specC09Straddle) }
