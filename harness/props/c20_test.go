package props

import (
	"context"
	"encoding/json"
	"fmt"
	"io/ioutil"
	"math"
	"os"
	"path/filepath"
	"regexp"
	"sort"
	"strings"
	"testing"
	"time"

	gproto "github.com/golang/protobuf/proto"
	"go.etcd.io/etcd/api/v3/etcdserverpb"
	"pgregory.net/rapid"

	proto "github.com/kubewharf/kubebrain-client/api/v2rpc"

	"github.com/kubewharf/kubebrain/pkg/backend"
	"github.com/kubewharf/kubebrain/pkg/server/brain"
	"github.com/kubewharf/kubebrain/pkg/server/etcd"
	imetrics "github.com/kubewharf/kubebrain/pkg/storage/metrics"
)

// C20 — no request can crash or wedge a node, with production metrics enabled

type c20WatchMsg struct {
	Kind  string `json:"m"` // create | cancel | empty
	Key   B      `json:"key,omitempty"`
	End   B      `json:"end,omitempty"`
	Rev   int64  `json:"rev,omitempty"`
	ID    int64  `json:"id,omitempty"`
	PrevK bool   `json:"prevkv,omitempty"`
}

type c20Req struct {
	API    string        `json:"api"`
	Kind   string        `json:"kind"`
	Key    B             `json:"key,omitempty"`
	End    B             `json:"end,omitempty"`
	Val    B             `json:"val,omitempty"`
	Rev    int64         `json:"rev,omitempty"`
	Limit  int64         `json:"limit,omitempty"`
	Flag   int           `json:"flag,omitempty"`
	NilKv  bool          `json:"nilkv,omitempty"`
	Script []c20WatchMsg `json:"script,omitempty"`
	Raw    B             `json:"raw,omitempty"` // protobuf bytes to decode into the request type (fuzz entry)
	// StorageFault: the engine fails once during this request: "" | iter | get | commit
	StorageFault string `json:"storage_fault,omitempty"`
}

type c20Case struct {
	// Follower: the node is not leader (its peers answer the revision sync with Sync: ok | error); reaches the
	// follower-side emission sites
	Follower bool   `json:"follower,omitempty"`
	Sync     string `json:"sync,omitempty"`
	Proxy    bool   `json:"proxy,omitempty"`
	Reqs     []c20Req
}

var c20Magic = "\x57\xfb\x80\x8b"

func genHostileBytes(t *rapid.T, label string) B {
	switch rapid.IntRange(0, 15).Draw(t, label+".class") {
	case 0:
		return B{}
	case 1:
		return B(Prefix + "/a")
	case 2:
		return B(Prefix + "/pods/default/p1")
	case 3:
		return B{0xff, 0xfe, 0xfd}
	case 4:
		return B("/registry/\xc3\x28bad-utf8")
	case 5:
		return B("a\x00b")
	case 6:
		return B(Prefix + "/a$b")
	case 7:
		return B{0x01}
	case 8:
		return B(c20Magic + Prefix + "/a$\x00\x00\x00\x00\x00\x00\x03\xe9")
	case 9:
		if DrawBool(t, 50, label+".plainLong") {
			return B(strings.Repeat("k", rapid.SampledFrom([]int{300, 5000, 70000}).Draw(t, label+".len")))
		}
		return genLongRuneKey(t, label)
	case 10:
		return B("/")
	case 11:
		return B("compact_rev_key")
	case 12:
		return B(Prefix + "/compact_key")
	case 13:
		return B(Prefix + "/election")
	case 14:
		return B(Prefix + "/events/ns/\xff")
	default:
		return B(rapid.SliceOfN(rapid.Byte(), 0, 12).Draw(t, label+".bytes"))
	}
}

// genLongRuneKey: a long key with a multi-byte rune (or an invalid byte) at an offset around the limits at which such
// values get cut (label values, log fields)
func genLongRuneKey(t *rapid.T, label string) B {
	limit := rapid.SampledFrom([]int{32, 64, 100, 128, 128, 200, 255, 256, 512, 1024}).Draw(t, label+".limit")
	off := limit - rapid.IntRange(0, 4).Draw(t, label+".back")
	mid := rapid.SampledFrom([]string{"\u00e9", "\u20ac", "\U0001d11e", "\xff", "\xc3"}).Draw(t, label+".rune")
	return B(Prefix + "/" + strings.Repeat("k", maxInt(off-len(Prefix)-1, 0)) + mid + strings.Repeat("z", rapid.IntRange(0, 40).Draw(t, label+".tail")))
}

func maxInt(a, b int) int {
	if a > b {
		return a
	}
	return b
}

func genHostileRev(t *rapid.T, label string) int64 {
	return rapid.OneOf(
		rapid.SampledFrom([]int64{0, 1, -1, 2, math.MinInt64, math.MaxInt64, 1888, -1888, 1000, 1001, 1002, 1 << 40, -(1 << 40), math.MinInt64 + 1}),
		rapid.Int64Range(990, 1030),
		rapid.Int64(),
	).Draw(t, label)
}

var c20Kinds = map[string][]string{
	"etcd":  {"range", "range", "txn-create", "txn-update", "txn-delete", "txn-udelete", "txn-unsupported", "txn-compact", "compact", "put", "deleterange", "watch", "watch", "lease", "member"},
	"brain": {"get", "range", "count", "partitions", "stream", "create", "update", "delete", "compact", "watch"},
}

func genC20Req(t *rapid.T) c20Req {
	api := rapid.SampledFrom([]string{"etcd", "brain"}).Draw(t, "api")
	r := c20Req{API: api, Kind: rapid.SampledFrom(c20Kinds[api]).Draw(t, "kind")}
	r.Key, r.End, r.Val = genHostileBytes(t, "key"), genHostileBytes(t, "end"), genHostileBytes(t, "val")
	r.Rev = genHostileRev(t, "rev")
	r.Limit = rapid.SampledFrom([]int64{0, 0, 1, 2, 3, -1, math.MaxInt64, math.MaxInt64 - 1, math.MinInt64, 1 << 62, 1 << 50, 1 << 31}).Draw(t, "limit")
	if DrawBool(t, 12, "storageFault") {
		r.StorageFault = rapid.SampledFrom([]string{"iter", "next", "next", "get", "commit"}).Draw(t, "sfault")
	}
	if r.Kind == "watch" && DrawBool(t, 25, "longRune") {
		r.Key = genLongRuneKey(t, "keyL")
	}
	r.Flag = rapid.IntRange(0, 40).Draw(t, "flag")
	r.NilKv = DrawBool(t, 10, "nilkv")
	if r.Kind == "watch" && api == "etcd" {
		n := rapid.IntRange(1, 4).Draw(t, "nmsgs")
		for i := 0; i < n; i++ {
			m := c20WatchMsg{Kind: rapid.SampledFrom([]string{"create", "create", "create", "cancel", "empty"}).Draw(t, "m")}
			m.Key, m.End = genHostileBytes(t, "wkey"), genHostileBytes(t, "wend")
			if DrawBool(t, 25, "wLongRune") {
				m.Key = genLongRuneKey(t, "wkeyL")
			}
			m.Rev = genHostileRev(t, "wrev")
			m.ID = rapid.SampledFrom([]int64{0, 1, -1, 99999, math.MaxInt64}).Draw(t, "wid")
			m.PrevK = DrawBool(t, 30, "prevkv")
			r.Script = append(r.Script, m)
		}
	}
	return r
}

func genC20(t *rapid.T) interface{} {
	c := &c20Case{}
	if DrawBool(t, 20, "follower") {
		c.Follower = true
		c.Sync = rapid.SampledFrom([]string{"ok", "ok", "error"}).Draw(t, "sync")
		c.Proxy = DrawBool(t, 40, "proxy")
	}
	n := rapid.IntRange(3, 25).Draw(t, "nreqs")
	for i := 0; i < n; i++ {
		c.Reqs = append(c.Reqs, genC20Req(t))
	}
	return c
}

type c20Node struct {
	handle    *DetachableBackend
	env       *SeqEnv
	rec       *MetricsRecorder
	etcdSrv   *etcd.RPCServer
	brainSrv  *brain.Server
	canaryCh  <-chan []*proto.Event
	cancel    context.CancelFunc
	canaryN   int
	follower  bool
	syncFails bool
	shim      *Shim
}

func newC20Node() (*c20Node, error) { return newC20NodeRole(false, "ok", false) }

func newC20NodeRole(follower bool, sync string, proxy bool) (*c20Node, error) {
	rec := NewMetricsRecorder()
	eng, err := OpenEngine(EngMem)
	if err != nil {
		return nil, err
	}
	// production wiring with --enable-storage-metrics: the metrics wrapper around the engine (a shim below it lets
	// the engine fail once on demand)
	shim := NewShim(eng.KV, false)
	kv := imetrics.NewKvStorage(shim, rec)
	env := &SeqEnv{Eng: eng, KV: kv, M: NewModel(), Ctx: context.Background(), Init: InitRev, LastRev: InitRev}
	env.B = NewTestBackend(kv, BackendOpts{Etcd: true, CacheSize: 256, Metrics: rec})
	peers := &ScriptedPeers{Leader: !follower, LeaderID: "self", Proxy: proxy}
	if follower && sync == "error" {
		peers.SyncFn = func() error { return fmt.Errorf("get revision from leader failed") }
	}
	n := &c20Node{env: env, rec: rec, follower: follower, syncFails: follower && sync == "error", shim: shim}
	// the servers get a detachable handle: brain.New starts a loop that never ends and would keep the backend alive
	n.handle = NewDetachable(env.B)
	n.etcdSrv = etcd.New(n.handle, rec, peers)
	n.brainSrv = brain.New(n.handle, rec, peers)
	ctx, cancel := context.WithCancel(context.Background())
	n.cancel = cancel
	ch, err := env.B.Watch(ctx, Prefix+"/canary/", 0)
	if err != nil {
		return nil, err
	}
	n.canaryCh = ch
	return n, nil
}

func (n *c20Node) close() {
	n.cancel()
	n.env.Close()
	n.handle.Detach()
}

// canary: the node still serves correctly — a fresh key becomes readable, reads back, and is watchable
func (n *c20Node) canary() error {
	n.canaryN++
	key := fmt.Sprintf("%s/canary/%d", Prefix, n.canaryN)
	val := []byte(fmt.Sprintf("canary-%d", n.canaryN))
	ctx := context.Background()
	var resp *proto.CreateResponse
	var err error
	if n.follower {
		// on a follower the canary write arrives the way a leader's write would: directly in the shared store
		resp, err = n.env.B.Create(ctx, &proto.CreateRequest{Key: []byte(key), Value: val})
	} else {
		resp, err = n.brainSrv.Create(ctx, &proto.CreateRequest{Key: []byte(key), Value: val})
	}
	if err != nil || resp == nil || !resp.Succeeded {
		return fmt.Errorf("create of a fresh key failed: %v %v", resp, err)
	}
	rev := resp.Header.Revision
	if !WaitCommitted(n.env.B, rev, 5*time.Second) {
		time.Sleep(2 * time.Second)
		if n.env.B.GetCurrentRevision() < rev {
			return fmt.Errorf("wedged: a write acknowledged at revision %d never became readable (read revision stuck at %d)", rev, n.env.B.GetCurrentRevision())
		}
	}
	if n.syncFails {
		// reads are (rightly) refused while the leader cannot be asked; the store itself must still be fine
		g, gerr := n.env.B.Get(ctx, &proto.GetRequest{Key: []byte(key)})
		if gerr != nil || g.Kv == nil || string(g.Kv.Value) != string(val) {
			return fmt.Errorf("read-back of the fresh key failed: %v %v", g, gerr)
		}
		return n.awaitCanaryEvent(key, rev)
	}
	g, err := n.brainSrv.Get(ctx, &proto.GetRequest{Key: []byte(key)})
	if err != nil || g.Kv == nil || string(g.Kv.Value) != string(val) {
		return fmt.Errorf("read-back of the fresh key failed: %v %v", g, err)
	}
	l, err := n.brainSrv.Range(ctx, &proto.RangeRequest{Key: []byte(key), End: backend.PrefixEnd([]byte(key))})
	if err != nil || len(l.Kvs) != 1 {
		return fmt.Errorf("range read of the fresh key failed: %v %v", l, err)
	}
	return n.awaitCanaryEvent(key, rev)
}

func (n *c20Node) awaitCanaryEvent(key string, rev uint64) error {
	deadline := time.After(5 * time.Second)
	for {
		select {
		case evs, ok := <-n.canaryCh:
			if !ok {
				return fmt.Errorf("the canary watch was closed")
			}
			for _, e := range evs {
				if string(e.Kv.Key) == key {
					return nil
				}
			}
		case <-deadline:
			return fmt.Errorf("wedged: the event of a write acknowledged at revision %d never reached a watch", rev)
		}
	}
}

func (n *c20Node) issue(r c20Req) (rejected bool, err error) {
	ctx, cancel := context.WithTimeout(context.Background(), 3*time.Second)
	defer cancel()
	defer func() {
		if p := recover(); p != nil {
			err = fmt.Errorf("handler panicked: %v", p)
		}
	}()
	var herr error
	switch r.API + ":" + r.Kind {
	case "etcd:range":
		_, herr = n.etcdSrv.Range(ctx, &etcdserverpb.RangeRequest{Key: r.Key, RangeEnd: r.End, Revision: r.Rev, Limit: r.Limit, CountOnly: r.Flag%5 == 0, KeysOnly: r.Flag%7 == 0, Serializable: r.Flag%3 == 0})
	case "etcd:txn-create":
		_, herr = n.etcdSrv.Txn(ctx, txnCreate(r.Key, r.Val))
	case "etcd:txn-update":
		_, herr = n.etcdSrv.Txn(ctx, txnUpdate(r.Key, r.Val, r.Rev))
	case "etcd:txn-delete":
		_, herr = n.etcdSrv.Txn(ctx, txnDelete(r.Key, r.Rev))
	case "etcd:txn-udelete":
		_, herr = n.etcdSrv.Txn(ctx, txnUnguardedDelete(r.Key))
	case "etcd:txn-unsupported":
		_, herr = n.etcdSrv.Txn(ctx, buildUnsupported(c16Unsupported[r.Flag%len(c16Unsupported)], r.Key, r.End, r.Val, r.Rev))
	case "etcd:txn-compact":
		_, herr = n.etcdSrv.Txn(ctx, &etcdserverpb.TxnRequest{
			Compare: []*etcdserverpb.Compare{{Result: etcdserverpb.Compare_EQUAL, Target: etcdserverpb.Compare_VERSION, Key: []byte("compact_rev_key"), TargetUnion: &etcdserverpb.Compare_Version{Version: r.Rev}}},
			Success: []*etcdserverpb.RequestOp{opPut([]byte("compact_rev_key"), r.Val)}, Failure: []*etcdserverpb.RequestOp{opGet([]byte("compact_rev_key"))}})
	case "etcd:compact":
		_, herr = n.etcdSrv.Compact(ctx, &etcdserverpb.CompactionRequest{Revision: r.Rev, Physical: r.Flag%2 == 0})
	case "etcd:put":
		_, herr = n.etcdSrv.Put(ctx, &etcdserverpb.PutRequest{Key: r.Key, Value: r.Val})
	case "etcd:deleterange":
		_, herr = n.etcdSrv.DeleteRange(ctx, &etcdserverpb.DeleteRangeRequest{Key: r.Key, RangeEnd: r.End})
	case "etcd:lease":
		switch r.Flag % 3 {
		case 0:
			_, herr = n.etcdSrv.LeaseGrant(ctx, &etcdserverpb.LeaseGrantRequest{TTL: r.Rev, ID: r.Limit})
		case 1:
			_, herr = n.etcdSrv.LeaseRevoke(ctx, &etcdserverpb.LeaseRevokeRequest{ID: r.Rev})
		default:
			_, herr = n.etcdSrv.LeaseTimeToLive(ctx, &etcdserverpb.LeaseTimeToLiveRequest{ID: r.Rev})
		}
	case "etcd:member":
		_, herr = n.etcdSrv.MemberList(ctx, &etcdserverpb.MemberListRequest{})
	case "etcd:watch":
		ws := NewFakeEtcdWatchStream()
		done := make(chan error, 1)
		go func() {
			defer func() {
				if p := recover(); p != nil {
					done <- fmt.Errorf("watch handler panicked: %v", p)
				}
			}()
			done <- n.etcdSrv.Watch(ws)
		}()
		for _, m := range r.Script {
			switch m.Kind {
			case "create":
				ws.In <- &etcdserverpb.WatchRequest{RequestUnion: &etcdserverpb.WatchRequest_CreateRequest{CreateRequest: &etcdserverpb.WatchCreateRequest{Key: m.Key, RangeEnd: m.End, StartRevision: m.Rev, PrevKv: m.PrevK}}}
			case "cancel":
				ws.In <- &etcdserverpb.WatchRequest{RequestUnion: &etcdserverpb.WatchRequest_CancelRequest{CancelRequest: &etcdserverpb.WatchCancelRequest{WatchId: m.ID}}}
			default:
				ws.In <- &etcdserverpb.WatchRequest{}
			}
		}
		// let the handler work through the script, then end the stream as a client would
		time.Sleep(2 * time.Millisecond)
		ws.Close()
		select {
		case herr = <-done:
			if herr != nil && strings.Contains(herr.Error(), "panicked") {
				return false, herr
			}
			herr = nil // ending the stream is not a rejection
		case <-time.After(10 * time.Second):
			return false, fmt.Errorf("the Watch handler did not return within 10s after its stream ended")
		}
	case "brain:get":
		_, herr = n.brainSrv.Get(ctx, &proto.GetRequest{Key: r.Key, Revision: uint64(r.Rev)})
	case "brain:range":
		_, herr = n.brainSrv.Range(ctx, &proto.RangeRequest{Key: r.Key, End: r.End, Revision: uint64(r.Rev), Limit: r.Limit})
	case "brain:count":
		_, herr = n.brainSrv.Count(ctx, &proto.CountRequest{Key: r.Key, End: r.End})
	case "brain:partitions":
		_, herr = n.brainSrv.ListPartition(ctx, &proto.ListPartitionRequest{Key: r.Key, End: r.End})
	case "brain:stream":
		fs := NewFakeBrainRangeStream()
		herr = n.brainSrv.RangeStream(&proto.RangeRequest{Key: r.Key, End: r.End, Revision: uint64(r.Rev)}, fs)
		fs.Close()
	case "brain:create":
		_, herr = n.brainSrv.Create(ctx, &proto.CreateRequest{Key: r.Key, Value: r.Val, Lease: r.Limit})
	case "brain:update":
		q := &proto.UpdateRequest{Kv: &proto.KeyValue{Key: r.Key, Value: r.Val, Revision: uint64(r.Rev)}, Lease: r.Limit}
		if r.NilKv {
			q.Kv = nil
		}
		_, herr = n.brainSrv.Update(ctx, q)
	case "brain:delete":
		_, herr = n.brainSrv.Delete(ctx, &proto.DeleteRequest{Key: r.Key, Revision: uint64(r.Rev)})
	case "brain:compact":
		_, herr = n.brainSrv.Compact(ctx, &proto.CompactRequest{Revision: uint64(r.Rev)})
	case "brain:watch":
		fs := NewFakeBrainWatchStream()
		done := make(chan error, 1)
		go func() {
			defer func() {
				if p := recover(); p != nil {
					done <- fmt.Errorf("watch handler panicked: %v", p)
				}
			}()
			done <- n.brainSrv.Watch(&proto.WatchRequest{Key: r.Key, End: r.End, Revision: uint64(r.Rev)}, fs)
		}()
		select {
		case herr = <-done:
		case <-time.After(2 * time.Millisecond):
			fs.Close()
			select {
			case herr = <-done:
				herr = nil
			case <-time.After(10 * time.Second):
				return false, fmt.Errorf("the native Watch handler did not return within 10s after its stream ended")
			}
		}
		fs.Close()
		if herr != nil && strings.Contains(herr.Error(), "panicked") {
			return false, herr
		}
	default:
		return false, fmt.Errorf("harness: unknown request %s:%s", r.API, r.Kind)
	}
	return herr != nil, nil
}

func writeCurrentCase(c *c20Case) {
	js, _ := json.Marshal(c)
	p := filepath.Join(outDir(), fmt.Sprintf("C20.%s.current.json", shardName()))
	_ = ioutil.WriteFile(p, js, 0o644)
}

func runC20(ci interface{}, st *CaseStats) error {
	c := ci.(*c20Case)
	writeCurrentCase(c) // if this process dies, the driver attributes the death to this case
	n, err := newC20NodeRole(c.Follower, c.Sync, c.Proxy)
	if err != nil {
		return Inconclusivef("node: %v", err)
	}
	defer n.close()
	if c.Follower {
		st.Label("role:follower-sync-" + c.Sync)
	} else {
		st.Label("role:leader")
	}
	if err := n.canary(); err != nil {
		return Inconclusivef("canary fails on a fresh node: %v", err)
	}
	n.rec.Problems()
	nontrivial := false
	nRejected, nServed, nHard := 0, 0, 0
	for ri, r := range c.Reqs {
		// the engine fails once during this request (a storage error answered with an error is fine; a crash or an
		// inconsistent metric is not)
		armed := r.StorageFault
		if armed == "iter" || armed == "next" {
			// an unlimited scan answers an iterator error by backing off for seconds (1 s + 3 s): keep iterator faults
			// to point reads, limited ranges and the reads inside writes
			unlimitedScan := (r.Kind == "range" && len(r.End) > 0 && (r.Limit <= 0 || r.Limit == math.MaxInt64)) ||
				r.Kind == "count" || r.Kind == "stream" || r.Kind == "partitions" || r.Kind == "watch" || r.Kind == "compact" || r.Kind == "txn-compact"
			if unlimitedScan {
				armed = ""
			}
		}
		n.shim.OnIter = func(int) Decision {
			if armed == "iter" {
				armed = ""
				return FailNoApply
			}
			return Pass
		}
		n.shim.OnNext = func(int, int) Decision {
			// the first step of an iterator fails (the iterator was created fine)
			if armed == "next" {
				armed = ""
				return FailNoApply
			}
			return Pass
		}
		n.shim.OnGet = func(int, []byte) Decision {
			if armed == "get" {
				armed = ""
				return FailNoApply
			}
			return Pass
		}
		n.shim.OnCommit = func(*CommitInfo) Decision {
			if armed == "commit" {
				armed = ""
				return FailNoApply
			}
			return Pass
		}
		rejected, err := n.issue(r)
		armed = ""
		n.shim.OnIter, n.shim.OnGet, n.shim.OnCommit, n.shim.OnNext = nil, nil, nil, nil
		if r.StorageFault != "" {
			st.Label("storage-fault:" + r.StorageFault)
		}
		what := fmt.Sprintf("request %d %s:%s key=%q end=%q rev=%d", ri, r.API, r.Kind, trunc(r.Key), trunc(r.End), r.Rev)
		if err != nil {
			return fmt.Errorf("%s: %v", what, err)
		}
		// background goroutines finish their emission shortly after a stream ends
		if r.Kind == "watch" || r.Kind == "stream" {
			time.Sleep(500 * time.Microsecond)
		}
		if probs := n.rec.Problems(); len(probs) > 0 {
			return fmt.Errorf("%s: %s", what, probs[0].Detail)
		}
		if err := n.canary(); err != nil {
			return fmt.Errorf("after %s: %v", what, err)
		}
		if probs := n.rec.Problems(); len(probs) > 0 {
			return fmt.Errorf("after %s (canary): %s", what, probs[0].Detail)
		}
		if rejected {
			st.Label("rejected:" + r.API + ":" + r.Kind)
			nRejected++
		} else {
			st.Label("served:" + r.API + ":" + r.Kind)
			nServed++
		}
		if r.StorageFault != "" || r.Kind == "watch" || r.Kind == "stream" || r.Rev > 1<<39 || r.Rev < -(1<<39) || len(r.Key) > 256 {
			nHard++
		}
	}
	nontrivial = nRejected > 0 && nServed > 0 && nHard > 0
	// metric names reached
	for name := range n.rec.Seen {
		st.Label("metric:" + name)
	}
	if nontrivial {
		st.Nontrivial()
	}
	return nil
}

// metricNamesInSource lists the literal metric names emitted anywhere in /repo (coverage denominator only)
func metricNamesInSource() []string {
	re := regexp.MustCompile(`Emit(?:Counter|Gauge|Histogram)\("([^"]+)"`)
	set := map[string]bool{}
	_ = filepath.Walk(EnvStr("VERIF_REPO", "/repo")+"/pkg", func(p string, info os.FileInfo, err error) error {
		if err != nil || info.IsDir() || !strings.HasSuffix(p, ".go") || strings.HasSuffix(p, "_test.go") {
			return nil
		}
		data, rerr := ioutil.ReadFile(p)
		if rerr != nil {
			return nil
		}
		for _, m := range re.FindAllStringSubmatch(string(data), -1) {
			set[m[1]] = true
		}
		return nil
	})
	var out []string
	for k := range set {
		out = append(out, k)
	}
	sort.Strings(out)
	return out
}

func probeC20NonUTF8WatchPrefix() (bool, string) {
	n, err := newC20Node()
	if err != nil {
		return false, err.Error()
	}
	defer n.close()
	n.rec.Problems()
	_, err = n.issue(c20Req{API: "brain", Kind: "watch", Key: B("/registry/\xff\xfe"), Rev: 0})
	time.Sleep(5 * time.Millisecond)
	if err != nil {
		return true, err.Error()
	}
	for _, p := range n.rec.Problems() {
		if p.Kind == "panic" {
			return true, p.Detail
		}
	}
	return false, ""
}

var specC20 = &Spec{
	ID:   "C20",
	Rule: "case = 3..25 hostile requests through the real etcd and native gRPC handler objects on a leader whose metrics client is the real Prometheus client (process-global registry) and whose engine sits behind the storage-metrics wrapper: keys / range ends / values from {empty, ordinary, non-UTF-8, bytes <= '$', NUL, internal-key look-alikes, 300 B..70 KB, '/', the compaction and election record names, random bytes}, revisions from {0, +-1, min/max int64, 1888 (partition magic), near current, +-2^40, random}, limits incl. negative and absurdly large, missing sub-messages, a storage engine that fails once (iterator creation / an iterator's step / get / commit) during 12% of the requests, all 24 unsupported transaction shapes, watch streams scripted with creates (incl. negative = range-stream revisions, arbitrary bounds), cancels of unknown ids and empty messages. After every request a canary (create a fresh key, wait until readable, read back point and range, receive its event on a watch opened before) must pass. Oracle: the handler returns without panic; the metrics recorder saw no panic inside the Prometheus client and no metric name emitted with two different label-name sets; the canary passes; the process stays alive (the driver treats worker death as a violation and attributes it to the case in flight). Non-trivial = the case has a request the node rejected, one it served, and one of the hard kinds (storage fault during the request, a watch or range stream, a revision beyond +-2^39, a key longer than 256 bytes), each followed by a passing canary; distinct = SHA-1 of the case",
	Gen:  genC20,
	New:  func() interface{} { return &c20Case{} },
	Run:  runC20,
	Probes: map[string]func() (bool, string){
		"non-utf8-watch-prefix-panics-in-prometheus": probeC20NonUTF8WatchPrefix,
	},
	Assumptions: []string{
		"requests go through the handler objects, not through a network gRPC server (protobuf decoding is covered by the native fuzz entry)",
		"metric emission sites never reached by the generated requests are listed in evidence (coverage bookkeeping), not decided",
	},
	Engines: []string{EngMemMetrics},
}

func TestC20(t *testing.T) {
	RunProperty(t, specC20)
	// coverage bookkeeping: which literal metric names of the source were reached by this process
	names := metricNamesInSource()
	globalLabelSets.Lock()
	reached := map[string]bool{}
	for k := range globalLabelSets.m {
		parts := strings.SplitN(k, " ", 2)
		if len(parts) == 2 {
			reached[parts[1]] = true
		}
	}
	globalLabelSets.Unlock()
	var not []string
	for _, nme := range names {
		if !reached[nme] {
			not = append(not, nme)
		}
	}
	js, _ := json.Marshal(map[string]interface{}{"metric_names_in_source": len(names), "reached": len(names) - len(not), "not_reached": not})
	_ = ioutil.WriteFile(filepath.Join(outDir(), fmt.Sprintf("C20.%s.metrics.json", shardName())), js, 0o644)
}

var _ = backend.PrefixEnd

// FuzzC20 is the byte-level entry (thorough tier): protobuf bytes are decoded into one of the request types and sent
// through the handlers of a fresh node, followed by the canary
func FuzzC20(f *testing.F) {
	seedReq := func(m gproto.Message) []byte {
		b, _ := gproto.Marshal(m)
		return b
	}
	f.Add(uint8(0), seedReq(&etcdserverpb.RangeRequest{Key: []byte(Prefix + "/a"), RangeEnd: []byte(Prefix + "0"), Revision: -1}))
	f.Add(uint8(1), seedReq(txnUpdate([]byte(Prefix+"/a"), []byte("v"), -1)))
	f.Add(uint8(1), seedReq(txnDelete([]byte{0xff, 0xfe}, math.MaxInt64)))
	f.Add(uint8(2), seedReq(&etcdserverpb.WatchRequest{RequestUnion: &etcdserverpb.WatchRequest_CreateRequest{CreateRequest: &etcdserverpb.WatchCreateRequest{Key: []byte("/\xff"), StartRevision: -5}}}))
	f.Add(uint8(3), seedReq(&proto.UpdateRequest{Kv: &proto.KeyValue{Key: []byte("k"), Value: []byte("v"), Revision: math.MaxUint64}}))
	f.Add(uint8(4), seedReq(&proto.RangeRequest{Key: []byte("a"), End: []byte{0}, Revision: 1 << 63}))
	f.Add(uint8(5), seedReq(&proto.WatchRequest{Key: []byte{0xc3, 0x28}, Revision: 0}))
	f.Add(uint8(6), seedReq(&proto.DeleteRequest{Key: []byte(Prefix + "/a"), Revision: math.MaxUint64}))
	f.Add(uint8(7), seedReq(&proto.CompactRequest{Revision: math.MaxUint64}))
	f.Fuzz(func(t *testing.T, kind uint8, data []byte) {
		n, err := newC20Node()
		if err != nil {
			t.Skip()
		}
		defer n.close()
		n.rec.Problems()
		ctx, cancel := context.WithTimeout(context.Background(), 3*time.Second)
		defer cancel()
		func() {
			defer func() {
				if p := recover(); p != nil {
					t.Fatalf("C20 violated: handler panicked on decoded request (kind %d): %v", kind%8, p)
				}
			}()
			switch kind % 8 {
			case 0:
				q := &etcdserverpb.RangeRequest{}
				if gproto.Unmarshal(data, q) == nil {
					_, _ = n.etcdSrv.Range(ctx, q)
				}
			case 1:
				q := &etcdserverpb.TxnRequest{}
				if gproto.Unmarshal(data, q) == nil {
					_, _ = n.etcdSrv.Txn(ctx, q)
				}
			case 2:
				q := &etcdserverpb.WatchRequest{}
				if gproto.Unmarshal(data, q) == nil {
					ws := NewFakeEtcdWatchStream()
					done := make(chan struct{})
					go func() { defer close(done); defer func() { _ = recover() }(); _ = n.etcdSrv.Watch(ws) }()
					ws.In <- q
					time.Sleep(time.Millisecond)
					ws.Close()
					<-done
				}
			case 3:
				q := &proto.UpdateRequest{}
				if gproto.Unmarshal(data, q) == nil {
					_, _ = n.brainSrv.Update(ctx, q)
				}
			case 4:
				q := &proto.RangeRequest{}
				if gproto.Unmarshal(data, q) == nil {
					_, _ = n.brainSrv.Range(ctx, q)
					fs := NewFakeBrainRangeStream()
					_ = n.brainSrv.RangeStream(q, fs)
					fs.Close()
				}
			case 5:
				q := &proto.WatchRequest{}
				if gproto.Unmarshal(data, q) == nil {
					fs := NewFakeBrainWatchStream()
					done := make(chan struct{})
					go func() { defer close(done); defer func() { _ = recover() }(); _ = n.brainSrv.Watch(q, fs) }()
					time.Sleep(time.Millisecond)
					fs.Close()
					<-done
				}
			case 6:
				q := &proto.DeleteRequest{}
				if gproto.Unmarshal(data, q) == nil {
					_, _ = n.brainSrv.Delete(ctx, q)
				}
			default:
				q := &proto.CreateRequest{}
				if gproto.Unmarshal(data, q) == nil {
					_, _ = n.brainSrv.Create(ctx, q)
				}
			}
		}()
		time.Sleep(300 * time.Microsecond)
		if probs := n.rec.Problems(); len(probs) > 0 {
			t.Fatalf("C20 violated: %s", probs[0].Detail)
		}
		if err := n.canary(); err != nil {
			t.Fatalf("C20 violated: after the decoded request (kind %d): %v", kind%8, err)
		}
	})
}
