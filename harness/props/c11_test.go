package props

import (
	"bytes"
	"context"
	"errors"
	"fmt"
	"io"
	"sort"
	"strings"
	"sync"
	"testing"

	"pgregory.net/rapid"

	"github.com/kubewharf/kubebrain/pkg/storage"
)

// C11 — every storage adapter honours the engine contract (sorted-map reference model)

type c11BOp struct {
	Kind string `json:"op"` // pine | cas | put | del | delcur
	K    int    `json:"key"`
	Old  string `json:"old,omitempty"` // cas: match | mismatch
	It   int    `json:"it,omitempty"`  // delcur: iterator slot
}

type c11Step struct {
	Kind  string   `json:"step"` // batch | get | del | iter | next | delcur
	Ops   []c11BOp `json:"ops,omitempty"`
	K     int      `json:"key,omitempty"`
	It    int      `json:"it,omitempty"`
	Start int      `json:"start,omitempty"`
	End   int      `json:"end,omitempty"`
	Limit int      `json:"limit,omitempty"`
	N     int      `json:"n,omitempty"`
}

type c11Case struct {
	Engine string
	Keys   []string
	Steps  []c11Step
}

var c11Names = []string{"a", "a0", "ab", "ab/", "ab/1", "b", "b\x00", "b/", "c", "c\xff", "d", "zz", "k1", "k10", "k2"}
var c11Bounds = append([]string{"\x01", "0", "a/", "bb", "zzz", "\xff\xff"}, c11Names...)

func genC11(t *rapid.T) interface{} {
	c := &c11Case{Engine: EnvStr("VERIF_ENGINE", EngMem)}
	n := rapid.IntRange(4, 9).Draw(t, "nkeys")
	perm := rapid.Permutation(c11Names).Draw(t, "keys")
	c.Keys = append([]string{}, perm[:n]...)
	ns := rapid.IntRange(5, 40).Draw(t, "nsteps")
	lastSlot := 0
	for i := 0; i < ns; i++ {
		if i < 3 {
			// populate: a batch of plain puts
			s := c11Step{Kind: "batch"}
			for j := 0; j < 3; j++ {
				s.Ops = append(s.Ops, c11BOp{Kind: "put", K: DrawIntn(t, n, "pkey")})
			}
			c.Steps = append(c.Steps, s)
			continue
		}
		kind := rapid.SampledFrom([]string{"batch", "batch", "batch", "batch", "get", "del", "iter", "iter", "next", "next", "delcur", "delcur"}).Draw(t, "step")
		s := c11Step{Kind: kind, K: DrawIntn(t, n, "key"), It: DrawIntn(t, 3, "it")}
		switch kind {
		case "batch":
			nops := rapid.IntRange(1, 4).Draw(t, "nops")
			for j := 0; j < nops; j++ {
				op := c11BOp{Kind: rapid.SampledFrom([]string{"pine", "cas", "cas", "cas", "put", "put", "del", "delcur"}).Draw(t, "bop"), K: DrawIntn(t, n, "bkey"), It: lastSlot}
				if op.Kind == "cas" {
					op.Old = rapid.SampledFrom([]string{"match", "match", "match", "mismatch"}).Draw(t, "old")
				}
				s.Ops = append(s.Ops, op)
			}
		case "iter":
			s.Start, s.End = DrawIntn(t, len(c11Bounds), "start"), DrawIntn(t, len(c11Bounds), "end")
			s.Limit = rapid.SampledFrom([]int{0, 0, 1, 2, 3}).Draw(t, "limit")
			lastSlot = s.It
			c.Steps = append(c.Steps, s)
			if DrawBool(t, 70, "thenNext") {
				c.Steps = append(c.Steps, c11Step{Kind: "next", It: s.It, N: rapid.IntRange(1, 3).Draw(t, "n1")})
			}
			continue
		case "next":
			s.N = rapid.IntRange(1, 12).Draw(t, "n")
			if DrawBool(t, 70, "lastSlot") {
				s.It = lastSlot
			}
		case "delcur":
			if DrawBool(t, 85, "lastSlotD") {
				s.It = lastSlot
			}
		}
		c.Steps = append(c.Steps, s)
	}
	return c
}

type c11ModelIter struct {
	open    bool
	it      storage.Iter
	seq     []RawKV // full expected sequence (snapshot at creation)
	pos     int     // number of successful Next calls
	limit   int
	done    bool
	reverse bool
	touched map[string]int // writes per key since creation (counted by the harness)
}

type c11Model struct {
	m     map[string][]byte
	iters [3]*c11ModelIter
	ver   map[string]int // modification counter per key
}

func (m *c11Model) sorted() []string {
	ks := make([]string, 0, len(m.m))
	for k := range m.m {
		ks = append(ks, k)
	}
	sort.Strings(ks)
	return ks
}

func exactCap(s string) []byte {
	b := make([]byte, len(s))
	copy(b, s)
	return b
}

func runC11(ci interface{}, st *CaseStats) error {
	c := ci.(*c11Case)
	eng, err := OpenEngine(c.Engine)
	if err != nil {
		return Inconclusivef("engine: %v", err)
	}
	defer eng.Close()
	kv := eng.KV
	ctx := context.Background()
	st.Label("engine:" + c.Engine)
	mod := &c11Model{m: map[string][]byte{}, ver: map[string]int{}}
	defer func() {
		for _, it := range mod.iters {
			if it != nil && it.open {
				_ = it.it.Close()
			}
		}
	}()
	vcount := 0
	newVal := func() []byte { vcount++; return []byte(fmt.Sprintf("val-%d", vcount)) }
	nontrivial := false
	pfx := []byte("c11/")
	fk := func(name string) []byte { return append(exactCap("c11/"), name...) }
	_ = pfx
	for si, s := range c.Steps {
		key := c.Keys[s.K%len(c.Keys)]
		switch s.Kind {
		case "batch":
			b := kv.BeginBatchWrite()
			overlay := map[string][]byte{}
			deleted := map[string]bool{}
			get := func(k string) []byte {
				if deleted[k] {
					return nil
				}
				if v, ok := overlay[k]; ok {
					return v
				}
				return mod.m[k]
			}
			fail := false
			failIdx := -1
			unconditionalBeforeFail := false
			sawUncond := false
			var desc []string
			skipBatch := false
			for oi, op := range s.Ops {
				k := c.Keys[op.K%len(c.Keys)]
				switch op.Kind {
				case "pine":
					v := newVal()
					b.PutIfNotExist(fk(k), v, 0)
					if !fail {
						if get(k) != nil {
							fail, failIdx = true, oi
							unconditionalBeforeFail = sawUncond
						} else {
							overlay[k], deleted[k] = v, false
						}
					}
					desc = append(desc, fmt.Sprintf("PutIfNotExist(%q)", k))
				case "cas":
					v := newVal()
					cur := get(k)
					old := cur
					if op.Old == "mismatch" || cur == nil {
						old = []byte("not-the-value")
					}
					b.CAS(fk(k), v, old, 0)
					if !fail {
						if cur == nil || !bytes.Equal(cur, old) {
							fail, failIdx = true, oi
							unconditionalBeforeFail = sawUncond
							if cur == nil {
								st.Label("cond-on-missing-key")
							}
						} else {
							overlay[k], deleted[k] = v, false
						}
					}
					desc = append(desc, fmt.Sprintf("CAS(%q,old=%q)", k, old))
				case "put":
					v := newVal()
					b.Put(fk(k), v, 0)
					if !fail {
						overlay[k], deleted[k] = v, false
						sawUncond = true
					}
					desc = append(desc, fmt.Sprintf("Put(%q)", k))
				case "del":
					b.Del(fk(k))
					if !fail {
						deleted[k] = true
						delete(overlay, k)
						sawUncond = true
					}
					desc = append(desc, fmt.Sprintf("Del(%q)", k))
				case "delcur":
					mi := mod.iters[op.It%3]
					if mi == nil || !mi.open || mi.pos == 0 || mi.done {
						continue // iterator not positioned: the call is not allowed
					}
					cur := mi.seq[mi.pos-1]
					ck := string(cur.Key[len("c11/"):])
					if _, inBatch := overlay[ck]; inBatch || deleted[ck] {
						// comparing against a key modified earlier in the same batch: engines differ legitimately
						// (value- vs version-comparison inside a transaction); not generated by any caller
						skipBatch = true
					}
					b.DelCurrent(mi.it)
					if !fail {
						now := mod.m[ck]
						switch {
						case now == nil || !bytes.Equal(now, cur.Val):
							fail, failIdx = true, oi
							unconditionalBeforeFail = sawUncond
						case mi.touched[ck] > 0:
							// rewritten with equal bytes since the snapshot: either outcome allowed; avoid it
							skipBatch = true
						default:
							deleted[ck] = true
							delete(overlay, ck)
						}
					}
					desc = append(desc, fmt.Sprintf("DelCurrent(it%d@%q)", op.It%3, ck))
				}
			}
			err := b.Commit(ctx)
			if skipBatch {
				// outcome not determined by the contract: resynchronise the model from the store
				if rerr := c11Resync(kv, mod); rerr != nil {
					return Inconclusivef("resync: %v", rerr)
				}
				st.Label("batch:underdetermined-resynced")
				continue
			}
			if fail {
				if err == nil {
					return fmt.Errorf("step %d: batch %v committed although condition %d does not hold", si, desc, failIdx)
				}
				if !errors.Is(err, storage.ErrCASFailed) {
					return fmt.Errorf("step %d: batch %v: failed condition %d reported as %q (%T), not as a condition failure", si, desc, failIdx, err, err)
				}
				if unconditionalBeforeFail {
					nontrivial = true
					st.Label("batch:uncond-before-failing-cond")
				}
				st.Label("batch:fails")
			} else {
				if err != nil {
					return fmt.Errorf("step %d: batch %v returned %q although every condition holds", si, desc, err)
				}
				for k, v := range overlay {
					mod.m[k] = v
					mod.touch(k)
				}
				for k, d := range deleted {
					if d {
						delete(mod.m, k)
						mod.touch(k)
					}
				}
				st.Label("batch:commits")
			}
			// all-or-nothing: compare the whole store with the model
			if err := c11Compare(kv, mod, fmt.Sprintf("step %d after batch %v (err=%v)", si, desc, err)); err != nil {
				return err
			}
		case "get":
			v, err := kv.Get(ctx, fk(key))
			want := mod.m[key]
			if want == nil {
				if err != storage.ErrKeyNotFound {
					return fmt.Errorf("step %d: Get(%q) of a missing key returned (%q, %v), want ErrKeyNotFound", si, key, v, err)
				}
			} else if err != nil || !bytes.Equal(v, want) {
				return fmt.Errorf("step %d: Get(%q) returned (%q, %v), want %q", si, key, v, err, want)
			}
		case "del":
			if err := kv.Del(ctx, fk(key)); err != nil {
				return fmt.Errorf("step %d: Del(%q) returned %v", si, key, err)
			}
			if mod.m[key] != nil {
				delete(mod.m, key)
				mod.touch(key)
			}
			if err := c11Compare(kv, mod, fmt.Sprintf("step %d after Del(%q)", si, key)); err != nil {
				return err
			}
		case "iter":
			slot := s.It % 3
			if old := mod.iters[slot]; old != nil && old.open {
				_ = old.it.Close()
				old.open = false
			}
			a, b := c11Bounds[s.Start%len(c11Bounds)], c11Bounds[s.End%len(c11Bounds)]
			if a == b {
				continue
			}
			start, end := fk(a), fk(b)
			it, err := kv.Iter(ctx, start, end, 0, uint64(s.Limit))
			if err != nil {
				return fmt.Errorf("step %d: Iter(%q,%q) returned %v", si, a, b, err)
			}
			mi := &c11ModelIter{open: true, it: it, limit: s.Limit, reverse: a > b, touched: map[string]int{}}
			ks := mod.sorted()
			if !mi.reverse {
				for _, k := range ks {
					if k >= a && k < b {
						mi.seq = append(mi.seq, RawKV{Key: fk(k), Val: mod.m[k]})
					}
				}
			} else {
				for i := len(ks) - 1; i >= 0; i-- {
					k := ks[i]
					if k <= a && k > b {
						mi.seq = append(mi.seq, RawKV{Key: fk(k), Val: mod.m[k]})
					}
				}
				// a backward iteration whose first candidate lies at or beyond the end bound
				for i := len(ks) - 1; i >= 0; i-- {
					if ks[i] <= a {
						if ks[i] <= b {
							nontrivial = true
							st.Label("iter:reverse-first-candidate-beyond-end")
						}
						break
					}
				}
			}
			if mi.reverse {
				st.Label("iter:reverse")
			} else {
				st.Label("iter:forward")
			}
			mod.iters[slot] = mi
		case "next":
			mi := mod.iters[s.It%3]
			if mi == nil || !mi.open || mi.done {
				continue
			}
			for n := 0; n < s.N && !mi.done; n++ {
				err := mi.it.Next(ctx)
				if err == io.EOF {
					mi.done = true
					need := len(mi.seq)
					if mi.limit > 0 && mi.limit < need {
						need = mi.limit
					}
					if mi.pos < need {
						return fmt.Errorf("step %d: iterator ended after %d keys, the interval holds %d (limit %d) in its snapshot", si, mi.pos, len(mi.seq), mi.limit)
					}
					break
				}
				if err != nil {
					return fmt.Errorf("step %d: Next returned %v", si, err)
				}
				if mi.pos >= len(mi.seq) {
					return fmt.Errorf("step %d: iterator yielded key %q beyond the %d keys of its interval/snapshot", si, mi.it.Key(), len(mi.seq))
				}
				want := mi.seq[mi.pos]
				gk, gv := mi.it.Key(), mi.it.Val()
				if !bytes.Equal(gk, want.Key) || !bytes.Equal(gv, want.Val) {
					return fmt.Errorf("step %d: iterator element %d is (%q,%q), want (%q,%q) from the snapshot at creation", si, mi.pos, gk, gv, want.Key, want.Val)
				}
				mi.pos++
				if len(mi.touched) > 0 {
					st.Label("iter:drained-after-mutation")
				}
			}
		case "delcur":
			mi := mod.iters[s.It%3]
			if mi == nil || !mi.open || mi.pos == 0 || mi.done {
				continue
			}
			cur := mi.seq[mi.pos-1]
			ck := string(cur.Key[len("c11/"):])
			err := kv.DelCurrent(ctx, mi.it)
			now := mod.m[ck]
			switch {
			case now == nil || !bytes.Equal(now, cur.Val):
				if err == nil {
					return fmt.Errorf("step %d: DelCurrent(%q) succeeded although the key changed since the iterator's snapshot (%q -> %q)", si, ck, cur.Val, now)
				}
				if !errors.Is(err, storage.ErrCASFailed) {
					return fmt.Errorf("step %d: DelCurrent(%q) on a changed key returned %q, not a condition failure", si, ck, err)
				}
				st.Label("delcur:refused")
			case mi.touched[ck] > 0:
				if err == nil {
					delete(mod.m, ck)
					mod.touch(ck)
				} else if !errors.Is(err, storage.ErrCASFailed) {
					return fmt.Errorf("step %d: DelCurrent(%q) returned %q", si, ck, err)
				}
				st.Label("delcur:rewritten-equal")
			default:
				if err != nil {
					return fmt.Errorf("step %d: DelCurrent(%q) on an untouched key returned %v", si, ck, err)
				}
				delete(mod.m, ck)
				mod.touch(ck)
				st.Label("delcur:deletes")
			}
			if err := c11Compare(kv, mod, fmt.Sprintf("step %d after DelCurrent(%q)", si, ck)); err != nil {
				return err
			}
		}
	}
	if nontrivial {
		st.Nontrivial()
	}
	return nil
}

func (m *c11Model) touch(k string) {
	m.ver[k]++
	for _, it := range m.iters {
		if it != nil && it.open {
			it.touched[k]++
		}
	}
}

func c11Dump(kv storage.KvStorage) (map[string][]byte, error) {
	it, err := kv.Iter(context.Background(), []byte("c11/"), []byte("c110"), 0, 0)
	if err != nil {
		return nil, err
	}
	defer it.Close()
	out := map[string][]byte{}
	for {
		err := it.Next(context.Background())
		if err == io.EOF {
			break
		}
		if err != nil {
			return nil, err
		}
		out[string(it.Key()[len("c11/"):])] = cp(it.Val())
	}
	return out, nil
}

func c11Resync(kv storage.KvStorage, m *c11Model) error {
	got, err := c11Dump(kv)
	if err != nil {
		return err
	}
	for k := range m.m {
		if _, ok := got[k]; !ok {
			m.touch(k)
		}
	}
	for k, v := range got {
		if !bytes.Equal(m.m[k], v) {
			m.touch(k)
		}
	}
	m.m = got
	return nil
}

func c11Compare(kv storage.KvStorage, m *c11Model, where string) error {
	got, err := c11Dump(kv)
	if err != nil {
		return fmt.Errorf("%s: full scan failed: %v", where, err)
	}
	for k, v := range m.m {
		g, ok := got[k]
		if !ok {
			return fmt.Errorf("%s: key %q missing from the store (model has %q)", where, k, v)
		}
		if !bytes.Equal(g, v) {
			return fmt.Errorf("%s: key %q holds %q, model has %q", where, k, g, v)
		}
	}
	for k, g := range got {
		if _, ok := m.m[k]; !ok {
			return fmt.Errorf("%s: store holds key %q=%q which the model does not", where, k, g)
		}
	}
	return nil
}

func probeC11TiKVCasMissing() (bool, string) {
	eng, err := OpenEngine(EngTiKV)
	if err != nil {
		return false, err.Error()
	}
	defer eng.Close()
	b := eng.KV.BeginBatchWrite()
	b.CAS([]byte("c11/missing"), []byte("new"), []byte("old"), 0)
	err = b.Commit(context.Background())
	if err == nil || !errors.Is(err, storage.ErrCASFailed) {
		return true, fmt.Sprintf("TiKV CAS on a missing key returned %v instead of a condition failure", err)
	}
	return false, ""
}

func probeC11TiKVReverseFirst() (bool, string) {
	eng, err := OpenEngine(EngTiKV)
	if err != nil {
		return false, err.Error()
	}
	defer eng.Close()
	b := eng.KV.BeginBatchWrite()
	b.Put([]byte("c11/a"), []byte("1"), 0)
	if err := b.Commit(context.Background()); err != nil {
		return false, err.Error()
	}
	it, err := eng.KV.Iter(context.Background(), []byte("c11/c"), []byte("c11/b"), 0, 0)
	if err != nil {
		return false, err.Error()
	}
	defer it.Close()
	if err := it.Next(context.Background()); err == nil {
		return true, fmt.Sprintf("TiKV reverse iteration (c, b] yielded %q which lies below the end bound", it.Key())
	}
	return false, ""
}

var specC11 = &Spec{
	ID:   "C11",
	Rule: "case = 4..9 byte keys with prefix/neighbour relations, 5..40 steps: write batches of 1..4 ops (put-if-absent, CAS with matching/mismatching/missing expectation, put, delete, delete-current), single get/delete/delete-current, iterators (3 slots) forward/backward/limited with bounds on, between and outside keys, drained in pieces after further mutations; oracle = sorted-map model with batch overlay, full-store comparison after every mutation; non-trivial = a failing batch containing an unconditional op before the failing condition, or a backward iteration whose first candidate lies at/beyond the end bound; distinct = SHA-1 of the case",
	Gen:  genC11,
	New:  func() interface{} { return &c11Case{} },
	Run:  runC11,
	Probes: map[string]func() (bool, string){
		"tikv-cas-missing-key":       probeC11TiKVCasMissing,
		"tikv-reverse-first-element": probeC11TiKVReverseFirst,
	},
	Assumptions: []string{
		"values are non-empty (TiKV rejects empty values; memkv cannot tell an empty value from absence)",
		"delete-current on a key rewritten earlier in the same batch or rewritten with equal bytes is under-determined by the interface; such steps resynchronise the model instead of judging",
	},
	Engines: AllEngines,
}

func TestC11(t *testing.T) { RunProperty(t, specC11) }

// ---------------------------------------------------------------------------------------------------------------
// concurrent batches: conditions and effects of one batch are atomic with respect to other batches

type c11Round struct {
	Kind string `json:"kind"` // pine | cas | delcur
	N    int    `json:"n"`    // competing goroutines
}

type c11ConcCase struct {
	Engine string
	Rounds []c11Round
}

func genC11Conc(t *rapid.T) interface{} {
	c := &c11ConcCase{Engine: EnvStr("VERIF_ENGINE", EngMem)}
	n := rapid.IntRange(3, 12).Draw(t, "nrounds")
	for i := 0; i < n; i++ {
		c.Rounds = append(c.Rounds, c11Round{Kind: rapid.SampledFrom([]string{"pine", "cas", "delcur", "skew", "readers"}).Draw(t, "kind"), N: rapid.IntRange(2, 4).Draw(t, "n")})
	}
	return c
}

func runC11Conc(ci interface{}, st *CaseStats) error {
	c := ci.(*c11ConcCase)
	eng, err := OpenEngine(c.Engine)
	if err != nil {
		return Inconclusivef("engine: %v", err)
	}
	defer eng.Close()
	kv := eng.KV
	ctx := context.Background()
	st.Label("engine:" + c.Engine)
	for ri, r := range c.Rounds {
		key := []byte(fmt.Sprintf("c11c/key-%d", ri))
		v0 := []byte("v0")
		if r.Kind == "readers" {
			// readers only: 2..4 goroutines iterate intervals whose bounds lie between / outside the stored keys and get
			// stored and never-written keys at the same time; nobody writes, so every answer is known
			sb := kv.BeginBatchWrite()
			for i := 0; i < 40; i += 2 {
				sb.Put([]byte(fmt.Sprintf("c11c/rd-%d/k%03d", ri, i)), []byte(fmt.Sprintf("val%03d", i)), 0)
			}
			if err := sb.Commit(ctx); err != nil {
				return Inconclusivef("seed: %v", err)
			}
			start := make(chan struct{})
			errs := make([]error, r.N)
			var wg sync.WaitGroup
			for g := 0; g < r.N; g++ {
				wg.Add(1)
				go func(g int) {
					defer wg.Done()
					<-start
					for n := 0; n < 150 && errs[g] == nil; n++ {
						lo, hi := (n*7+g*3)%39, 0
						hi = lo + 1 + (n*5+g)%(40-lo)
						if lo%2 == 0 {
							lo++ // a bound that is not a stored key
						}
						from, to := []byte(fmt.Sprintf("c11c/rd-%d/k%03d", ri, lo)), []byte(fmt.Sprintf("c11c/rd-%d/k%03d", ri, hi))
						backward := (n+g)%3 == 0
						var it storage.Iter
						var err error
						if backward {
							it, err = kv.Iter(ctx, to, from, 0, 0)
						} else {
							it, err = kv.Iter(ctx, from, to, 0, 0)
						}
						if err != nil {
							errs[g] = fmt.Errorf("reader %d: iterator: %v", g, err)
							return
						}
						var got []string
						for {
							e := it.Next(ctx)
							if e == io.EOF {
								break
							}
							if e != nil {
								errs[g] = fmt.Errorf("reader %d: iterator step: %v", g, e)
								break
							}
							k, v := string(it.Key()), string(it.Val())
							if !strings.HasSuffix(k, v[len(v)-3:]) || !strings.HasPrefix(v, "val") {
								errs[g] = fmt.Errorf("reader %d: iteration %q -> %q (backward=%v) yields key %q with value %q while nobody writes", g, from, to, backward, k, v)
								break
							}
							got = append(got, k)
						}
						_ = it.Close()
						var want []string
						for i := 0; i < 40; i += 2 {
							in := i >= lo && i < hi
							if backward {
								in = i > lo && i <= hi
							}
							if in {
								want = append(want, fmt.Sprintf("c11c/rd-%d/k%03d", ri, i))
							}
						}
						if backward {
							for a, b := 0, len(want)-1; a < b; a, b = a+1, b-1 {
								want[a], want[b] = want[b], want[a]
							}
						}
						if errs[g] == nil && strings.Join(got, ",") != strings.Join(want, ",") {
							errs[g] = fmt.Errorf("reader %d: iteration %q -> %q (backward=%v) yields %v, want %v (nobody writes)", g, from, to, backward, got, want)
						}
						// a key that was never written, and one that was
						if v, err := kv.Get(ctx, from); err != storage.ErrKeyNotFound {
							errs[g] = fmt.Errorf("reader %d: Get of the never-written key %q returned (%q, %v)", g, from, v, err)
						}
						ek := (lo + 1) % 40
						if v, err := kv.Get(ctx, []byte(fmt.Sprintf("c11c/rd-%d/k%03d", ri, ek))); err != nil || string(v) != fmt.Sprintf("val%03d", ek) {
							errs[g] = fmt.Errorf("reader %d: Get of stored key k%03d returned (%q, %v)", g, ek, v, err)
						}
					}
				}(g)
			}
			close(start)
			wg.Wait()
			for _, e := range errs {
				if e != nil {
					return fmt.Errorf("round %d (readers): %v", ri, e)
				}
			}
			st.Label("round:concurrent-readers")
			continue
		}
		if r.Kind == "skew" {
			// two batches, each conditioned on a key the other one overwrites (its compare-and-swap leaves the value as
			// it is — a pure guard): whatever the order, the second one's condition no longer holds
			g := [2][]byte{[]byte(fmt.Sprintf("c11c/guard-%d-a", ri)), []byte(fmt.Sprintf("c11c/guard-%d-b", ri))}
			sb := kv.BeginBatchWrite()
			sb.Put(g[0], v0, 0)
			sb.Put(g[1], v0, 0)
			if err := sb.Commit(ctx); err != nil {
				return Inconclusivef("seed: %v", err)
			}
			start := make(chan struct{})
			var errs [2]error
			var wg sync.WaitGroup
			for i := 0; i < 2; i++ {
				wg.Add(1)
				go func(i int) {
					defer wg.Done()
					<-start
					b := kv.BeginBatchWrite()
					b.CAS(g[i], v0, v0, 0)
					b.Put(g[1-i], []byte(fmt.Sprintf("taken-by-%d", i)), 0)
					errs[i] = b.Commit(ctx)
				}(i)
			}
			close(start)
			wg.Wait()
			if errs[0] == nil && errs[1] == nil {
				a, _ := kv.Get(ctx, g[0])
				bb, _ := kv.Get(ctx, g[1])
				return fmt.Errorf("round %d (skew): two batches, each conditioned on the key the other one overwrites, both took effect (guards now %q / %q): in either order the second one's condition did not hold", ri, a, bb)
			}
			if errs[0] == nil || errs[1] == nil {
				st.Label("round:one-winner")
			} else {
				st.Label("round:no-winner")
			}
			continue
		}
		if r.Kind != "pine" {
			b := kv.BeginBatchWrite()
			b.Put(key, v0, 0)
			if err := b.Commit(ctx); err != nil {
				return Inconclusivef("seed: %v", err)
			}
		}
		iters := make([]storage.Iter, r.N)
		if r.Kind == "delcur" {
			for i := range iters {
				it, err := kv.Iter(ctx, key, append(append([]byte{}, key...), 0xff), 0, 0)
				if err != nil || it.Next(ctx) != nil {
					return Inconclusivef("iter: %v", err)
				}
				iters[i] = it
			}
		}
		start := make(chan struct{})
		errs := make([]error, r.N)
		var wg sync.WaitGroup
		for i := 0; i < r.N; i++ {
			wg.Add(1)
			go func(i int) {
				defer wg.Done()
				defer func() {
					if p := recover(); p != nil {
						errs[i] = fmt.Errorf("panic: %v", p)
					}
				}()
				<-start
				b := kv.BeginBatchWrite()
				switch r.Kind {
				case "pine":
					b.PutIfNotExist(key, []byte(fmt.Sprintf("w%d", i)), 0)
				case "cas":
					b.CAS(key, []byte(fmt.Sprintf("w%d", i)), v0, 0)
				default:
					b.DelCurrent(iters[i])
				}
				b.Put([]byte(fmt.Sprintf("c11c/marker-%d-%d", ri, i)), []byte("m"), 0)
				errs[i] = b.Commit(ctx)
			}(i)
		}
		close(start)
		wg.Wait()
		for _, it := range iters {
			if it != nil {
				_ = it.Close()
			}
		}
		winners := 0
		winner := -1
		for i, e := range errs {
			if e != nil && strings.HasPrefix(e.Error(), "panic:") {
				return fmt.Errorf("round %d (%s): %v", ri, r.Kind, e)
			}
			if e == nil {
				winners++
				winner = i
			}
			_, merr := kv.Get(ctx, []byte(fmt.Sprintf("c11c/marker-%d-%d", ri, i)))
			if (e == nil) != (merr == nil) {
				return fmt.Errorf("round %d (%s, %d competing batches): batch %d reported %v but its unconditional write is present=%v: a batch must take effect entirely or not at all", ri, r.Kind, r.N, i, e, merr == nil)
			}
		}
		if winners > 1 {
			return fmt.Errorf("round %d: %d of %d batches conditioned on the same state of one key (%s) all took effect", ri, winners, r.N, r.Kind)
		}
		got, gerr := kv.Get(ctx, key)
		switch {
		case r.Kind == "delcur":
			if winners == 1 && gerr != storage.ErrKeyNotFound {
				return fmt.Errorf("round %d: a compare-and-delete succeeded but the key is still there (%q, %v)", ri, got, gerr)
			}
		case winners == 1:
			if want := fmt.Sprintf("w%d", winner); string(got) != want {
				return fmt.Errorf("round %d (%s): batch %d won but the key holds %q", ri, r.Kind, winner, got)
			}
		case r.Kind == "cas":
			if string(got) != "v0" {
				return fmt.Errorf("round %d: no compare-and-swap succeeded but the key holds %q", ri, got)
			}
		}
		if winners == 1 {
			st.Label("round:one-winner")
		} else {
			st.Label("round:no-winner")
		}
	}
	st.Nontrivial()
	return nil
}

var specC11Conc = &Spec{
	ID:      "C11",
	Rule:    "concurrent mode: 3..12 rounds; in each round 2..4 goroutines start together, each committing a batch of one conditional op on the same key (put-if-absent on an absent key / CAS from the same old value / compare-and-delete from the same iterator position) plus one unconditional put of its own marker key. Oracle: at most one batch takes effect; a batch's marker is present iff the batch reported success (all or nothing); the key holds the winner's value (or is gone). Free-running, all six engine variants. Non-trivial = every executed case; distinct = SHA-1 of the case",
	Gen:     genC11Conc,
	New:     func() interface{} { return &c11ConcCase{} },
	Run:     runC11Conc,
	Engines: AllEngines,
}

func TestC11Conc(t *testing.T) { RunProperty(t, specC11Conc) }
