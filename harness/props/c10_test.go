package props

import (
	"bytes"
	"encoding/binary"
	"fmt"
	"math"
	"sort"
	"testing"

	"pgregory.net/rapid"

	proto "github.com/kubewharf/kubebrain-client/api/v2rpc"

	"github.com/kubewharf/kubebrain/pkg/backend"
	"github.com/kubewharf/kubebrain/pkg/backend/coder"
	"github.com/kubewharf/kubebrain/pkg/storage"
)

// C10 — internal key encoding is reversible and order-preserving

type c10Rec struct {
	K B
	R uint64
}

type c10Case struct {
	Recs   []c10Rec
	Start  B
	End    B
	Prefix B
	RevVal B // candidate index-record value for ParseRevision
}

// alphabet: every byte greater than '$'
func genAlphaByte() *rapid.Generator[int] {
	return rapid.OneOf(
		rapid.IntRange(0x25, 0xff),
		rapid.SampledFrom([]int{0x25, 0x26, 0x2f, 0x61, 0x62, 0xfe, 0xff}),
	)
}

func genRawKey(t *rapid.T, label string) B {
	n := rapid.IntRange(0, 6).Draw(t, label+".len")
	k := make([]byte, n)
	for i := range k {
		k[i] = byte(genAlphaByte().Draw(t, label+".b"))
	}
	return B(k)
}

func genRev() *rapid.Generator[uint64] {
	return rapid.OneOf(
		rapid.SampledFrom([]uint64{0, 1, 2, 255, 256, 257, 1<<16 - 1, 1 << 16, 1<<32 - 1, 1 << 32, 1<<63 - 1, 1 << 63, math.MaxUint64 - 1, math.MaxUint64}),
		rapid.Uint64(),
		rapid.Uint64Range(0, 300),
	)
}

func genC10(t *rapid.T) interface{} {
	c := &c10Case{}
	n := rapid.IntRange(2, 8).Draw(t, "nrecs")
	var pool []B
	for i := 0; i < n; i++ {
		var k B
		mode := rapid.IntRange(0, 4).Draw(t, "kmode")
		switch {
		case mode == 0 && len(pool) > 0: // same key, other revision
			k = pool[DrawIntn(t, len(pool), "same")]
		case mode == 1 && len(pool) > 0: // extension of an existing key
			base := pool[DrawIntn(t, len(pool), "ext")]
			ext := genRawKey(t, "extk")
			if len(ext) == 0 {
				ext = B{byte(genAlphaByte().Draw(t, "extb"))}
			}
			k = append(append(B{}, base...), ext...)
		case mode == 2 && len(pool) > 0: // differs in the last byte only
			base := pool[DrawIntn(t, len(pool), "nb")]
			if len(base) > 0 {
				k = append(B{}, base...)
				k[len(k)-1] = byte(genAlphaByte().Draw(t, "lastb"))
			} else {
				k = genRawKey(t, "k")
			}
		default:
			k = genRawKey(t, "k")
		}
		pool = append(pool, k)
		c.Recs = append(c.Recs, c10Rec{K: k, R: genRev().Draw(t, "rev")})
	}
	pick := func(label string) B {
		if DrawBool(t, 60, label+".fromPool") {
			b := pool[DrawIntn(t, len(pool), label+".i")]
			if DrawBool(t, 30, label+".trunc") && len(b) > 0 {
				return append(B{}, b[:DrawIntn(t, len(b), label+".cut")]...)
			}
			return append(B{}, b...)
		}
		return genRawKey(t, label)
	}
	c.Start, c.End, c.Prefix = pick("start"), pick("end"), pick("prefix")
	rl := rapid.SampledFrom([]int{0, 1, 7, 8, 9, 10, 16}).Draw(t, "revlen")
	c.RevVal = B(rapid.SliceOfN(rapid.Byte(), rl, rl).Draw(t, "revval"))
	return c
}

func cmpRec(a, b c10Rec) int {
	if x := bytes.Compare(a.K, b.K); x != 0 {
		return x
	}
	switch {
	case a.R < b.R:
		return -1
	case a.R > b.R:
		return 1
	}
	return 0
}

func runC10(ci interface{}, st *CaseStats) error {
	c := ci.(*c10Case)
	cd := coder.NewNormalCoder()
	enc := make([][]byte, len(c.Recs))
	for i, r := range c.Recs {
		enc[i] = cd.EncodeObjectKey(r.K, r.R)
		k, rev, err := cd.Decode(enc[i])
		if err != nil {
			return fmt.Errorf("Decode(Encode(%q,%d)) failed: %v", r.K, r.R, err)
		}
		if !bytes.Equal(k, r.K) || rev != r.R {
			return fmt.Errorf("round trip: Encode(%q,%d) decodes to (%q,%d)", r.K, r.R, k, rev)
		}
		idx := cd.EncodeRevisionKey(r.K)
		if bytes.Compare(idx, enc[i]) > 0 {
			return fmt.Errorf("index record of %q sorts after its version %d", r.K, r.R)
		}
		if !bytes.Equal(idx, cd.EncodeObjectKey(r.K, 0)) {
			return fmt.Errorf("index record of %q is not the revision-0 key", r.K)
		}
	}
	nontrivial := false
	for i := range c.Recs {
		for j := range c.Recs {
			want := cmpRec(c.Recs[i], c.Recs[j])
			got := bytes.Compare(enc[i], enc[j])
			if want != got {
				return fmt.Errorf("order: cmp((%q,%d),(%q,%d))=%d but encoded compare=%d", c.Recs[i].K, c.Recs[i].R, c.Recs[j].K, c.Recs[j].R, want, got)
			}
			a, b := c.Recs[i].K, c.Recs[j].K
			if len(a) < len(b) && bytes.HasPrefix(b, a) {
				nontrivial = true
				st.Label("pair:proper-prefix")
				// no record of another key lies between the index record of a and any version of a
				idxA := cd.EncodeRevisionKey(a)
				if bytes.Compare(enc[j], idxA) > 0 && bytes.Compare(enc[j], cd.EncodeObjectKey(a, math.MaxUint64)) <= 0 {
					return fmt.Errorf("record (%q,%d) lies inside the version run of %q", b, c.Recs[j].R, a)
				}
			}
			if len(a) == len(b) && len(a) > 0 && bytes.Equal(a[:len(a)-1], b[:len(b)-1]) && a[len(a)-1] != b[len(b)-1] &&
				(a[len(a)-1] == 0x25 || b[len(b)-1] == 0x25) {
				nontrivial = true
				st.Label("pair:adjacent-to-split-byte")
			}
		}
	}
	// contiguity: sort encoded; every key's records are adjacent with ascending revisions
	order := make([]int, len(enc))
	for i := range order {
		order[i] = i
	}
	sort.Slice(order, func(x, y int) bool { return bytes.Compare(enc[order[x]], enc[order[y]]) < 0 })
	seen := map[string]bool{}
	last := ""
	for n, i := range order {
		k := string(c.Recs[i].K)
		if n > 0 && k != last && seen[k] {
			return fmt.Errorf("versions of %q are not contiguous in encoded order", k)
		}
		seen[k] = true
		last = k
	}
	// range bounds
	if bytes.Compare(c.Start, c.End) < 0 {
		lo, hi := cd.EncodeObjectKey(c.Start, 0), cd.EncodeObjectKey(c.End, 0)
		for i, r := range c.Recs {
			in := bytes.Compare(enc[i], lo) >= 0 && bytes.Compare(enc[i], hi) < 0
			want := bytes.Compare(r.K, c.Start) >= 0 && bytes.Compare(r.K, c.End) < 0
			if in != want {
				return fmt.Errorf("range [%q,%q): record (%q,%d) enclosed=%v want %v", c.Start, c.End, r.K, r.R, in, want)
			}
			if want {
				st.Label("range:hit")
			}
		}
	}
	// prefix bounds
	pe := backend.PrefixEnd(c.Prefix)
	allFF := true
	for _, b := range c.Prefix {
		if b != 0xff {
			allFF = false
		}
	}
	if allFF {
		if !bytes.Equal(pe, []byte{0}) {
			return fmt.Errorf("PrefixEnd(%q)=%q, want the no-end value", c.Prefix, pe)
		}
		st.Label("prefix:no-end")
	} else {
		if bytes.Compare(pe, c.Prefix) <= 0 {
			return fmt.Errorf("PrefixEnd(%q)=%q is not greater than the prefix", c.Prefix, pe)
		}
		lo, hi := cd.EncodeObjectKey(c.Prefix, 0), cd.EncodeObjectKey(pe, 0)
		for i, r := range c.Recs {
			in := bytes.Compare(enc[i], lo) >= 0 && bytes.Compare(enc[i], hi) < 0
			want := bytes.HasPrefix(r.K, c.Prefix)
			if in != want {
				return fmt.Errorf("prefix %q (end %q): record (%q,%d) enclosed=%v want %v", c.Prefix, pe, r.K, r.R, in, want)
			}
			if want {
				st.Label("prefix:hit")
			}
		}
	}
	// index-record value parser
	rev, tomb, err := coder.ParseRevision(c.RevVal)
	switch len(c.RevVal) {
	case 8, 9:
		if err != nil {
			return fmt.Errorf("ParseRevision(%d bytes) failed: %v", len(c.RevVal), err)
		}
		if rev != binary.BigEndian.Uint64(c.RevVal[:8]) || tomb != (len(c.RevVal) == 9) {
			return fmt.Errorf("ParseRevision(%x) = (%d,%v)", []byte(c.RevVal), rev, tomb)
		}
	default:
		if err == nil {
			return fmt.Errorf("ParseRevision accepted %d bytes", len(c.RevVal))
		}
	}
	for _, r := range c.Recs {
		buf := make([]byte, 8)
		binary.BigEndian.PutUint64(buf, r.R)
		if got, tomb, err := coder.ParseRevision(buf); err != nil || got != r.R || tomb {
			return fmt.Errorf("ParseRevision(be64(%d)) = (%d,%v,%v)", r.R, got, tomb, err)
		}
		if got, tomb, err := coder.ParseRevision(append(buf, 0)); err != nil || got != r.R || !tomb {
			return fmt.Errorf("ParseRevision(be64(%d)+flag) = (%d,%v,%v)", r.R, got, tomb, err)
		}
	}
	if nontrivial {
		st.Nontrivial()
	}
	return nil
}

var specC10 = &Spec{
	ID:   "C10",
	Rule: "case = 2..8 (raw key, revision) records over the alphabet (bytes > '$'; keys derived from each other as same key / extension / last-byte sibling / fresh), one raw range, one prefix, one candidate index value; non-trivial = some pair of keys where one is a proper prefix of the other or that differ only in a last byte adjacent to the split byte; distinct = SHA-1 of the serialised case",
	Gen:  genC10,
	New:  func() interface{} { return &c10Case{} },
	Run:  runC10,
	Assumptions: []string{
		"raw keys contain only bytes greater than '$' (the documented alphabet)",
	},
}

func TestC10(t *testing.T) { RunProperty(t, specC10) }

// FuzzC10 is the byte-level entry used by the thorough tier (coverage-guided); bytes are mapped into the alphabet
func FuzzC10(f *testing.F) {
	f.Add([]byte("a"), []byte("a/b"), uint64(0), uint64(1), []byte("a"))
	f.Add([]byte{0xff, 0xff}, []byte{0xff}, uint64(math.MaxUint64), uint64(0), []byte{0xff})
	f.Add([]byte{}, []byte{0x25}, uint64(1<<63), uint64(255), []byte{})
	f.Add([]byte("a%"), []byte("a&"), uint64(256), uint64(257), []byte("a"))
	f.Fuzz(func(t *testing.T, k1, k2 []byte, r1, r2 uint64, p []byte) {
		m := func(b []byte) B {
			if len(b) > 12 {
				b = b[:12]
			}
			o := make([]byte, len(b))
			for i, x := range b {
				o[i] = byte(0x25 + int(x)%(256-0x25))
			}
			return B(o)
		}
		c := &c10Case{Recs: []c10Rec{{m(k1), r1}, {m(k2), r2}, {m(k1), r2}, {m(p), r1}}, Start: m(k1), End: m(k2), Prefix: m(p), RevVal: B(k1)}
		if err := runC10(c, &CaseStats{}); err != nil {
			t.Fatalf("C10 violated: %v", err)
		}
	})
}

// ---------------------------------------------------------------------------------------------------------------
// concurrent use: the coder is shared by every request goroutine of a node; encoding one key must not disturb the
// encoding of another

type c10ConcCase struct {
	Lanes  [][]c10Rec // one list of records per goroutine
	Rounds int
}

func genC10Conc(t *rapid.T) interface{} {
	c := &c10ConcCase{Rounds: rapid.SampledFrom([]int{50, 200, 1000}).Draw(t, "rounds")}
	nl := rapid.IntRange(2, 6).Draw(t, "lanes")
	for l := 0; l < nl; l++ {
		var recs []c10Rec
		for i := 0; i < rapid.IntRange(1, 5).Draw(t, "nrec"); i++ {
			recs = append(recs, c10Rec{K: genRawKey(t, "ck"), R: genRev().Draw(t, "cr")})
		}
		c.Lanes = append(c.Lanes, recs)
	}
	return c
}

func runC10Conc(ci interface{}, st *CaseStats) error {
	c := ci.(*c10ConcCase)
	cd := coder.NewNormalCoder()
	errs := make(chan error, len(c.Lanes))
	start := make(chan struct{})
	for _, lane := range c.Lanes {
		go func(recs []c10Rec) {
			<-start
			var held []byte
			var heldRec c10Rec
			for round := 0; round < c.Rounds; round++ {
				for _, r := range recs {
					enc := cd.EncodeObjectKey(r.K, r.R)
					idx := cd.EncodeRevisionKey(r.K)
					k, rev, err := cd.Decode(enc)
					if err != nil || !bytes.Equal(k, r.K) || rev != r.R {
						errs <- fmt.Errorf("with %d goroutines encoding at once, Encode(%q,%d) decodes to (%q,%d,%v)", len(c.Lanes), r.K, r.R, k, rev, err)
						return
					}
					if k2, rev2, err := cd.Decode(idx); err != nil || !bytes.Equal(k2, r.K) || rev2 != 0 {
						errs <- fmt.Errorf("with %d goroutines encoding at once, the index key of %q decodes to (%q,%d,%v)", len(c.Lanes), r.K, k2, rev2, err)
						return
					}
					// a key encoded earlier must still be what it was (results must not share memory)
					if held != nil {
						if k3, rev3, err := cd.Decode(held); err != nil || !bytes.Equal(k3, heldRec.K) || rev3 != heldRec.R {
							errs <- fmt.Errorf("an encoded key changed after later encodings: Encode(%q,%d) now decodes to (%q,%d,%v)", heldRec.K, heldRec.R, k3, rev3, err)
							return
						}
					}
					held, heldRec = enc, r
				}
			}
			errs <- nil
		}(lane)
	}
	close(start)
	var first error
	for range c.Lanes {
		if err := <-errs; err != nil && first == nil {
			first = err
		}
	}
	short := 0
	for _, lane := range c.Lanes {
		for _, r := range lane {
			if len(r.K) <= 4 {
				short++
			}
		}
	}
	if short >= 2 {
		st.Nontrivial()
	}
	return first
}

var specC10Conc = &Spec{
	ID:   "C10",
	Rule: "concurrent mode: case = 2..6 goroutines, each encoding and decoding its own 1..5 (raw key, revision) records 50..1000 times through one shared coder, also re-decoding the key it encoded one step earlier; oracle = round trip per goroutine. Non-trivial = at least two keys of <= 4 bytes (results that fit into small shared buffers); distinct = SHA-1 of the case",
	Gen:  genC10Conc,
	New:  func() interface{} { return &c10ConcCase{} },
	Run:  runC10Conc,
	Assumptions: []string{
		"schedules are whatever the Go scheduler produces on the available cores (not enumerated)",
	},
}

func TestC10Conc(t *testing.T) { RunProperty(t, specC10Conc) }

// ---------------------------------------------------------------------------------------------------------------
// partition bounds: the pieces an engine advertises for an encoded range must tile exactly that range (the scan
// workers read what the pieces say, so a piece that reaches beyond the encoded bounds returns foreign keys)

type c10PartsCase struct {
	Splits []c10Rec // region borders of the TiKV mock: internal keys of these (raw key, revision) pairs
	Start  B
	End    B
}

func genC10Parts(t *rapid.T) interface{} {
	c := &c10PartsCase{}
	var pool []B
	for i := 0; i < rapid.IntRange(1, 6).Draw(t, "nsplits"); i++ {
		k := genRawKey(t, "sk")
		if len(pool) > 0 && DrawBool(t, 40, "derive") {
			base := pool[DrawIntn(t, len(pool), "base")]
			k = append(append(B{}, base...), byte(genAlphaByte().Draw(t, "ext")))
		}
		pool = append(pool, k)
		c.Splits = append(c.Splits, c10Rec{K: k, R: genRev().Draw(t, "sr")})
	}
	pick := func(label string) B {
		if DrawBool(t, 60, label+".fromPool") {
			k := pool[DrawIntn(t, len(pool), label+".i")]
			switch rapid.IntRange(0, 3).Draw(t, label+".how") {
			case 0:
				return k
			case 1:
				return append(append(B{}, k...), 0x25)
			case 2:
				if len(k) > 0 {
					return k[:len(k)-1]
				}
			}
			return B(backend.PrefixEnd(k))
		}
		return genRawKey(t, label)
	}
	c.Start, c.End = pick("start"), pick("end")
	return c
}

func runC10Parts(ci interface{}, st *CaseStats) error {
	c := ci.(*c10PartsCase)
	cd := coder.NewNormalCoder()
	a, b := []byte(c.Start), []byte(c.End)
	if bytes.Compare(a, b) > 0 {
		a, b = b, a
	}
	if bytes.Equal(a, b) || len(b) == 0 {
		return nil
	}
	for _, x := range append(append([]byte{}, a...), b...) {
		if x <= '$' {
			st.Label("skipped:bound-outside-alphabet")
			return nil // e.g. the successor of the empty prefix: not a key over the documented alphabet
		}
	}
	ia, ib := cd.EncodeObjectKey(a, 0), cd.EncodeObjectKey(b, 0)
	var splits [][]byte
	for _, s := range c.Splits {
		splits = append(splits, cd.EncodeObjectKey(s.K, s.R))
	}
	sort.Slice(splits, func(i, j int) bool { return bytes.Compare(splits[i], splits[j]) < 0 })
	var ded [][]byte
	inner := 0
	for i, k := range splits {
		if i == 0 || !bytes.Equal(k, splits[i-1]) {
			ded = append(ded, k)
			if bytes.Compare(k, ia) > 0 && bytes.Compare(k, ib) < 0 {
				inner++
			}
		}
	}
	eng, err := OpenEngine(EngTiKV, ded...)
	if err != nil {
		return Inconclusivef("engine: %v", err)
	}
	defer eng.Close()
	ps, err := eng.KV.GetPartitions(ClientCtx(0), ia, ib)
	if err != nil {
		return fmt.Errorf("GetPartitions(%q,%q): %v", ia, ib, err)
	}
	if len(ps) == 0 {
		return fmt.Errorf("GetPartitions(%q,%q) returned no piece", ia, ib)
	}
	what := fmt.Sprintf("engine split at %q, range [%q,%q) encoded as [%q,%q): pieces %v", ded, a, b, ia, ib, fmtParts(ps))
	if !bytes.Equal(ps[0].Start, ia) {
		return fmt.Errorf("%s: the first piece does not start at the encoded lower bound", what)
	}
	if !bytes.Equal(ps[len(ps)-1].End, ib) {
		return fmt.Errorf("%s: the last piece does not end at the encoded upper bound", what)
	}
	for i := range ps {
		if bytes.Compare(ps[i].Start, ps[i].End) >= 0 {
			return fmt.Errorf("%s: piece %d is empty or inverted", what, i)
		}
		if i > 0 && !bytes.Equal(ps[i].Start, ps[i-1].End) {
			return fmt.Errorf("%s: piece %d does not start where piece %d ends", what, i, i-1)
		}
	}
	st.Labelf("inner-borders:%d", inner)
	if inner >= 1 && len(ded) > inner {
		st.Nontrivial() // a border inside the range and one outside it
	}
	return nil
}

func fmtParts(ps []storage.Partition) string {
	out := ""
	for _, p := range ps {
		out += fmt.Sprintf("[%q,%q) ", p.Start, p.End)
	}
	return out
}

var specC10Parts = &Spec{
	ID:      "C10",
	Rule:    "partition mode: case = 1..6 region borders of the TiKV mock cluster (internal keys of generated raw keys and revisions, keys derived from each other) + a raw range; the range is encoded and the engine is asked for its pieces. Oracle: the pieces tile exactly the encoded range (first starts at the encoded lower bound, last ends at the encoded upper bound, contiguous, ascending, none empty). Non-trivial = at least one border inside the range and one outside; distinct = SHA-1 of the case",
	Gen:     genC10Parts,
	New:     func() interface{} { return &c10PartsCase{} },
	Run:     runC10Parts,
	Engines: []string{EngTiKV + "+regions"},
}

func TestC10Parts(t *testing.T) { RunProperty(t, specC10Parts) }

// ---------------------------------------------------------------------------------------------------------------
// bounds as the node computes them: records at arbitrary revisions (the maximum included) are placed in an engine
// directly; range reads through a backend must return exactly the keys inside the raw bounds, also for bounds of the
// form key+"\x00" ("immediately after key")

type c10BoundsCase struct {
	Recs  []c10Rec // one stored version per distinct key
	Start B
	End   B
	After bool // the lower bound is Recs[0].K + "\x00"
	Until bool // the upper bound is Recs[len-1].K + "\x00"
}

func genC10Bounds(t *rapid.T) interface{} {
	c := &c10BoundsCase{}
	seen := map[string]bool{}
	var pool []B
	for i := 0; i < rapid.IntRange(2, 6).Draw(t, "nkeys"); i++ {
		k := genRawKey(t, "bk")
		if len(pool) > 0 && DrawBool(t, 50, "derive") {
			base := pool[DrawIntn(t, len(pool), "base")]
			k = append(append(B{}, base...), byte(genAlphaByte().Draw(t, "ext")))
		}
		if len(k) == 0 || seen[string(k)] {
			continue
		}
		seen[string(k)] = true
		pool = append(pool, k)
		r := genRev().Draw(t, "rev")
		if r == 0 {
			r = 1
		}
		c.Recs = append(c.Recs, c10Rec{K: k, R: r})
	}
	if len(c.Recs) == 0 {
		c.Recs = []c10Rec{{K: B("a"), R: math.MaxUint64}}
	}
	c.Start, c.End = genRawKey(t, "start"), genRawKey(t, "end")
	c.After, c.Until = DrawBool(t, 40, "after"), DrawBool(t, 40, "until")
	return c
}

func runC10Bounds(ci interface{}, st *CaseStats) error {
	c := ci.(*c10BoundsCase)
	cd := coder.NewNormalCoder()
	eng, err := OpenEngine(EngMem)
	if err != nil {
		return Inconclusivef("engine: %v", err)
	}
	defer eng.Close()
	ctx := ClientCtx(0)
	b := eng.KV.BeginBatchWrite()
	hasMax := false
	for _, r := range c.Recs {
		key := append([]byte(Prefix+"/"), r.K...)
		rb := make([]byte, 8)
		binary.BigEndian.PutUint64(rb, r.R)
		b.Put(cd.EncodeRevisionKey(key), rb, 0)
		b.Put(cd.EncodeObjectKey(key, r.R), []byte("v"), 0)
		if r.R == math.MaxUint64 {
			hasMax = true
		}
	}
	if err := b.Commit(ctx); err != nil {
		return Inconclusivef("populate: %v", err)
	}
	bk := NewTestBackend(eng.KV, BackendOpts{Init: math.MaxUint64, Etcd: true})
	defer StopBackend(bk)
	lo, hi := append([]byte(Prefix+"/"), c.Start...), append([]byte(Prefix+"/"), c.End...)
	if c.After {
		lo = append(append([]byte(Prefix+"/"), c.Recs[0].K...), 0)
	}
	if c.Until {
		hi = append(append([]byte(Prefix+"/"), c.Recs[len(c.Recs)-1].K...), 0)
	}
	if bytes.Compare(lo, hi) >= 0 {
		lo, hi = hi, lo
	}
	if bytes.Equal(lo, hi) {
		return nil
	}
	var want []string
	for _, r := range c.Recs {
		key := append([]byte(Prefix+"/"), r.K...)
		if bytes.Compare(key, lo) >= 0 && bytes.Compare(key, hi) < 0 {
			want = append(want, string(key))
		}
	}
	sort.Strings(want)
	resp, err := bk.List(ctx, &proto.RangeRequest{Key: lo, End: hi})
	if err != nil {
		return fmt.Errorf("List([%q,%q)) over records %v returned %v", lo, hi, c.Recs, err)
	}
	var got []string
	for _, kv := range resp.Kvs {
		got = append(got, string(kv.Key))
	}
	if fmt.Sprint(got) != fmt.Sprint(want) {
		return fmt.Errorf("List([%q,%q)) over records %v returned %q, the raw keys inside the bounds are %q", lo, hi, c.Recs, got, want)
	}
	if (c.After || c.Until) && hasMax {
		st.Label("immediately-after-bound-with-a-record-at-the-maximum-revision")
		st.Nontrivial()
	}
	return nil
}

var specC10Bounds = &Spec{
	ID:      "C10",
	Rule:    "node-bounds mode: case = 1..6 keys over the alphabet (derived from each other), each with one version at a revision from the boundary-heavy generator (the maximum 2^64-1 included) written into the engine directly, and a raw range whose bounds are generated keys or an existing key followed by a zero byte. Oracle: an unlimited range read through a backend returns exactly the keys inside the raw bounds. Non-trivial = an 'immediately after key' bound together with a record at the maximum revision; distinct = SHA-1 of the case",
	Gen:     genC10Bounds,
	New:     func() interface{} { return &c10BoundsCase{} },
	Run:     runC10Bounds,
	Engines: []string{EngMem},
}

func TestC10Bounds(t *testing.T) { RunProperty(t, specC10Bounds) }
