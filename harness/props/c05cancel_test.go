package props

import (
	"context"
	"fmt"
	"testing"
	"time"

	proto "github.com/kubewharf/kubebrain-client/api/v2rpc"
	"pgregory.net/rapid"
)

// C05, cancel mode. A consumer lags (batches pile up in the watch's buffers), the watch's context is cancelled (the
// client went away, a stream broke), and the consumer — or whatever still holds the channel — reads on until the channel
// is closed. "A stream never continues past an event it did not deliver": what comes out is a gap-free prefix of the
// matching changes, whatever happens to the rest.

type c05CancelCase struct {
	Engine string
	// Before: single-event writes while the consumer does not read (the result buffer holds 100 batches)
	Before int
	// ReadFirst: batches the consumer reads before the cancel
	ReadFirst int
	// After: writes after the cancel
	After int
	// SlowDrain: the consumer pauses now and then while it drains
	SlowDrain bool
	// Other: every n-th write goes to a key outside the watched prefix (0 = none)
	Other int
}

func genC05Cancel(t *rapid.T) interface{} {
	c := &c05CancelCase{Engine: EnvStr("VERIF_ENGINE", EngMem)}
	c.Before = rapid.SampledFrom([]int{150, 101, 400, 99, 250, 30}).Draw(t, "before")
	c.ReadFirst = rapid.SampledFrom([]int{0, 0, 1, 20}).Draw(t, "readFirst")
	c.After = rapid.SampledFrom([]int{0, 50, 200}).Draw(t, "after")
	c.SlowDrain = DrawBool(t, 50, "slowDrain")
	c.Other = rapid.SampledFrom([]int{0, 0, 3}).Draw(t, "other")
	return c
}

func runC05Cancel(ci interface{}, st *CaseStats) error {
	c := ci.(*c05CancelCase)
	env, err := NewSeqEnv(SeqOpts{Engine: c.Engine, Keys: []string{FullKey("w/k")}, Backend: BackendOpts{CacheSize: 4096}})
	if err != nil {
		return Inconclusivef("engine: %v", err)
	}
	defer env.Close()
	bg := context.Background()
	cr, err := env.B.Create(bg, &proto.CreateRequest{Key: []byte(FullKey("w/k")), Value: []byte("0")})
	if err != nil || !cr.Succeeded {
		return Inconclusivef("seed: %v %v", cr, err)
	}
	or, err := env.B.Create(bg, &proto.CreateRequest{Key: []byte(FullKey("other/k")), Value: []byte("0")})
	if err != nil || !or.Succeeded {
		return Inconclusivef("seed: %v %v", or, err)
	}
	if !WaitCommitted(env.B, or.Header.Revision, 10*time.Second) {
		return Inconclusivef("seed not readable")
	}
	ctx, cancel := context.WithCancel(bg)
	defer cancel()
	wch, err := env.B.Watch(ctx, FullKey("w/"), or.Header.Revision+1)
	if err != nil {
		return fmt.Errorf("watch: %v", err)
	}
	var want []uint64 // revisions of the matching changes, in order
	rev, orev := cr.Header.Revision, or.Header.Revision
	write := func(i int) error {
		if c.Other > 0 && i%c.Other == c.Other-1 {
			r, err := env.B.Update(bg, &proto.UpdateRequest{Kv: &proto.KeyValue{Key: []byte(FullKey("other/k")), Value: []byte(fmt.Sprint(i)), Revision: orev}})
			if err != nil || !r.Succeeded {
				return fmt.Errorf("write %d: %v %v", i, r, err)
			}
			orev = r.Header.Revision
			return nil
		}
		r, err := env.B.Update(bg, &proto.UpdateRequest{Kv: &proto.KeyValue{Key: []byte(FullKey("w/k")), Value: []byte(fmt.Sprint(i)), Revision: rev}})
		if err != nil || !r.Succeeded {
			return fmt.Errorf("write %d: %v %v", i, r, err)
		}
		rev = r.Header.Revision
		want = append(want, rev)
		return nil
	}
	for i := 0; i < c.Before; i++ {
		if err := write(i); err != nil {
			return err
		}
	}
	if !WaitCommitted(env.B, maxU64(rev, orev), 10*time.Second) {
		return fmt.Errorf("writes not readable within 10s")
	}
	var got []uint64
	closed := false
	read := func(limit int, d time.Duration) {
		for n := 0; limit <= 0 || n < limit; n++ {
			// d is an idle limit: it starts again with every batch
			deadline := time.After(d)
			select {
			case batch, ok := <-wch:
				if !ok {
					closed = true
					return
				}
				for _, e := range batch {
					got = append(got, e.Revision)
				}
				if c.SlowDrain && len(got)%37 == 0 {
					time.Sleep(200 * time.Microsecond)
				}
			case <-deadline:
				return
			}
		}
	}
	if c.ReadFirst > 0 {
		read(c.ReadFirst, 5*time.Second)
	}
	cancel()
	for i := 0; i < c.After; i++ {
		if err := write(c.Before + i); err != nil {
			return err
		}
	}
	// drain until the channel is closed (or nothing comes for a while: what was received is judged either way)
	read(0, 400*time.Millisecond)
	for i, r := range got {
		if i >= len(want) {
			return fmt.Errorf("event %d (revision %d) was delivered but only %d matching changes were made", i, r, len(want))
		}
		if r != want[i] {
			return fmt.Errorf("after the watch was cancelled the stream went on past an event it did not deliver: event #%d has revision %d, the next undelivered change is revision %d (%d events received of %d changes; closed=%v, %d batches were buffered before the cancel)", i, r, want[i], len(got), len(want), closed, c.Before)
		}
	}
	st.Labelf("closed-after-cancel:%v", closed)
	if c.Before > 100 {
		st.Label("buffers-were-full-at-cancel")
		st.Nontrivial()
	}
	return nil
}

var specC05Cancel = &Spec{
	ID:      "C05",
	Rule:    "cancel mode: case = 30..400 single-event changes (optionally interleaved with changes outside the prefix) while the consumer does not read (the watch's result buffer holds 100 batches), 0..20 batches read, the watch's context cancelled, 0..200 further changes, then the consumer drains until the channel is closed. Oracle: the i-th delivered event is the i-th matching change — a gap-free prefix. Non-trivial = more than 100 batches were pending at the cancel; distinct = SHA-1 of the case",
	Gen:     genC05Cancel,
	New:     func() interface{} { return &c05CancelCase{} },
	Run:     runC05Cancel,
	Engines: []string{EngMem},
}

func TestC05Cancel(t *testing.T) { RunProperty(t, specC05Cancel) }
