package props

// Shared doubles for the gRPC handler layer: a scripted PeerService, fake stream servers.

import (
	"context"
	"fmt"
	"sync"
	"time"

	"go.etcd.io/etcd/api/v3/etcdserverpb"
	"go.etcd.io/etcd/api/v3/mvccpb"
	"google.golang.org/grpc/metadata"

	proto "github.com/kubewharf/kubebrain-client/api/v2rpc"

	"github.com/kubewharf/kubebrain/pkg/server/service/leader"
)

// ScriptedPeers implements service.PeerService
type ScriptedPeers struct {
	mu       sync.Mutex
	Leader   bool
	Proxy    bool
	LeaderID string
	// SyncFn is called by SyncReadRevision (nil = succeed without doing anything)
	SyncFn func() error
	// recorded
	SyncCalls  int
	ProxyTxns  []*etcdserverpb.TxnRequest
	ProxyWatch []string
	// ProxyTxnFn / ProxyWatchFn produce the proxy's answers
	ProxyTxnFn   func(*etcdserverpb.TxnRequest) (*etcdserverpb.TxnResponse, error)
	ProxyWatchFn func(key string, rev uint64) (<-chan []*mvccpb.Event, error)
}

// SyncReadRevision implements revision.RevisionSyncer
func (p *ScriptedPeers) SyncReadRevision() error {
	p.mu.Lock()
	p.SyncCalls++
	fn := p.SyncFn
	p.mu.Unlock()
	if fn != nil {
		return fn()
	}
	return nil
}

// Close implements revision.RevisionSyncer
func (p *ScriptedPeers) Close() error { return nil }

// Campaign implements leader.LeaderElection
func (p *ScriptedPeers) Campaign() {}

// GetLeaderInfo implements leader.LeaderElection
func (p *ScriptedPeers) GetLeaderInfo() string { return p.LeaderID }

// IsLeader implements leader.LeaderElection
func (p *ScriptedPeers) IsLeader() bool {
	p.mu.Lock()
	defer p.mu.Unlock()
	return p.Leader
}

// GetElectionInfo implements leader.LeaderElection
func (p *ScriptedPeers) GetElectionInfo() (leader.ElectionInfo, error) {
	return leader.ElectionInfo{LeaderAddress: p.LeaderID, IsLeader: p.IsLeader()}, nil
}

// EtcdProxyEnabled implements etcdproxy.EtcdProxy
func (p *ScriptedPeers) EtcdProxyEnabled() bool { return p.Proxy }

// Txn implements etcdproxy.EtcdProxy
func (p *ScriptedPeers) Txn(ctx context.Context, txn *etcdserverpb.TxnRequest) (*etcdserverpb.TxnResponse, error) {
	p.mu.Lock()
	p.ProxyTxns = append(p.ProxyTxns, txn)
	fn := p.ProxyTxnFn
	p.mu.Unlock()
	if fn != nil {
		return fn(txn)
	}
	return &etcdserverpb.TxnResponse{Header: &etcdserverpb.ResponseHeader{Revision: 424242}, Succeeded: true}, nil
}

// Watch implements etcdproxy.EtcdProxy
func (p *ScriptedPeers) Watch(ctx context.Context, key string, revision uint64) (<-chan []*mvccpb.Event, error) {
	p.mu.Lock()
	p.ProxyWatch = append(p.ProxyWatch, key)
	fn := p.ProxyWatchFn
	p.mu.Unlock()
	if fn != nil {
		return fn(key, revision)
	}
	ch := make(chan []*mvccpb.Event)
	go func() {
		<-ctx.Done()
		close(ch)
	}()
	return ch, nil
}

// ---------------------------------------------------------------------------------------------------------------

type fakeStream struct {
	ctx context.Context
}

func (f *fakeStream) SetHeader(metadata.MD) error  { return nil }
func (f *fakeStream) SendHeader(metadata.MD) error { return nil }
func (f *fakeStream) SetTrailer(metadata.MD)       {}
func (f *fakeStream) Context() context.Context     { return f.ctx }
func (f *fakeStream) SendMsg(m interface{}) error  { return nil }
func (f *fakeStream) RecvMsg(m interface{}) error  { return nil }

// FakeEtcdWatchStream implements etcdserverpb.Watch_WatchServer
type FakeEtcdWatchStream struct {
	fakeStream
	In     chan *etcdserverpb.WatchRequest
	Out    chan *etcdserverpb.WatchResponse
	cancel context.CancelFunc
}

// NewFakeEtcdWatchStream creates a stream; Close ends it
func NewFakeEtcdWatchStream() *FakeEtcdWatchStream {
	ctx, cancel := context.WithCancel(context.Background())
	return &FakeEtcdWatchStream{fakeStream: fakeStream{ctx: ctx}, In: make(chan *etcdserverpb.WatchRequest, 16), Out: make(chan *etcdserverpb.WatchResponse, 100000), cancel: cancel}
}

// Send implements the stream
func (s *FakeEtcdWatchStream) Send(r *etcdserverpb.WatchResponse) error {
	select {
	case s.Out <- r:
		return nil
	case <-s.ctx.Done():
		return s.ctx.Err()
	}
}

// Recv implements the stream
func (s *FakeEtcdWatchStream) Recv() (*etcdserverpb.WatchRequest, error) {
	select {
	case r, ok := <-s.In:
		if !ok {
			return nil, fmt.Errorf("stream closed by client")
		}
		return r, nil
	case <-s.ctx.Done():
		return nil, s.ctx.Err()
	}
}

// Close cancels the stream context
func (s *FakeEtcdWatchStream) Close() { s.cancel() }

// Next returns the next response or nil after the timeout
func (s *FakeEtcdWatchStream) Next(d time.Duration) *etcdserverpb.WatchResponse {
	select {
	case r := <-s.Out:
		return r
	case <-time.After(d):
		return nil
	}
}

// FakeBrainWatchStream implements proto.Watch_WatchServer
type FakeBrainWatchStream struct {
	fakeStream
	Out    chan *proto.WatchResponse
	cancel context.CancelFunc
}

// NewFakeBrainWatchStream creates the stream
func NewFakeBrainWatchStream() *FakeBrainWatchStream {
	ctx, cancel := context.WithCancel(context.Background())
	return &FakeBrainWatchStream{fakeStream: fakeStream{ctx: ctx}, Out: make(chan *proto.WatchResponse, 100000), cancel: cancel}
}

// Send implements the stream
func (s *FakeBrainWatchStream) Send(r *proto.WatchResponse) error {
	select {
	case s.Out <- r:
		return nil
	case <-s.ctx.Done():
		return s.ctx.Err()
	}
}

// Close cancels the stream
func (s *FakeBrainWatchStream) Close() { s.cancel() }

// FakeBrainRangeStream implements proto.Read_RangeStreamServer
type FakeBrainRangeStream struct {
	fakeStream
	Out    chan *proto.StreamRangeResponse
	cancel context.CancelFunc
}

// NewFakeBrainRangeStream creates the stream
func NewFakeBrainRangeStream() *FakeBrainRangeStream {
	ctx, cancel := context.WithCancel(context.Background())
	return &FakeBrainRangeStream{fakeStream: fakeStream{ctx: ctx}, Out: make(chan *proto.StreamRangeResponse, 100000), cancel: cancel}
}

// Send implements the stream
func (s *FakeBrainRangeStream) Send(r *proto.StreamRangeResponse) error {
	select {
	case s.Out <- r:
		return nil
	case <-s.ctx.Done():
		return s.ctx.Err()
	}
}

// Close cancels the stream
func (s *FakeBrainRangeStream) Close() { s.cancel() }
