package props

import (
	"bytes"
	"context"
	"fmt"
	"strings"
	"sync"
	"testing"
	"time"

	"pgregory.net/rapid"

	metav1 "k8s.io/apimachinery/pkg/apis/meta/v1"
	"k8s.io/client-go/tools/leaderelection/resourcelock"

	"github.com/kubewharf/kubebrain/pkg/backend/election"
	"github.com/kubewharf/kubebrain/pkg/storage"
)

// C14 — the leader lock is taken by at most one candidate per observed state

type c14Case struct {
	Engine string
	// Programs[i] = steps of candidate i: get | create | update | acquire (client-go protocol: get, then create if
	// not found else update)
	Programs [][]string
	Sched    []int
	// Exhaustive: enumerate every schedule of the programs instead of using Sched
	Exhaustive bool `json:"exhaustive,omitempty"`
	Preexist   bool `json:"preexist,omitempty"` // a record exists before the candidates start
}

func genC14(t *rapid.T) interface{} {
	c := &c14Case{Engine: EnvStr("VERIF_ENGINE", EngMem)}
	c.Exhaustive = EnvStr("VERIF_EXHAUSTIVE", "") == "1"
	n := 2
	maxSteps := 3
	if !c.Exhaustive {
		n = rapid.IntRange(2, 3).Draw(t, "ncand")
		maxSteps = 5
	}
	c.Preexist = DrawBool(t, 40, "preexist")
	for i := 0; i < n; i++ {
		ns := rapid.IntRange(1, maxSteps).Draw(t, "nsteps")
		var p []string
		for j := 0; j < ns; j++ {
			p = append(p, rapid.SampledFrom([]string{"acquire", "acquire", "get", "create", "update", "update", "release", "renew-same", "get"}).Draw(t, "step"))
		}
		c.Programs = append(c.Programs, p)
	}
	if !c.Exhaustive {
		c.Sched = DrawChoices(t, 40, "sched")
	}
	return c
}

type c14Result struct {
	branch  []int
	overlap bool
	writes  int
}

func c14RunOnce(c *c14Case, choices []int) (*c14Result, error) {
	eng, err := OpenEngine(c.Engine)
	if err != nil {
		return nil, Inconclusivef("engine: %v", err)
	}
	defer eng.Close()
	electionKey := []byte(Prefix + "/election")
	var mu sync.Mutex
	var record []byte // register model, in commit order
	seq := 0
	mkRecord := func(id string) resourcelock.LeaderElectionRecord {
		mu.Lock()
		seq++
		n := seq
		mu.Unlock()
		ts := metav1.NewTime(time.Unix(1000000000+int64(n), 0).UTC())
		return resourcelock.LeaderElectionRecord{HolderIdentity: id, LeaseDurationSeconds: 8, AcquireTime: ts, RenewTime: ts, LeaderTransitions: n}
	}
	if c.Preexist {
		rl := election.NewResourceLockManager(election.Config{Prefix: Prefix, Identity: "old", Timeout: 5 * time.Second}, eng.KV).GetResourceLock()
		if err := rl.Create(mkRecord("old")); err != nil {
			return nil, Inconclusivef("seeding the record: %v", err)
		}
		record, _ = eng.KV.Get(context.Background(), electionKey)
	}
	sched := NewSched()
	n := len(c.Programs)
	observed := make([][]byte, n) // what each candidate last read (or created) — what its update is conditioned on
	hasObserved := make([]bool, n)
	var modelErr error
	locks := make([]resourcelock.Interface, n)
	shims := make([]*Shim, n)
	type apiRes struct {
		step string
		err  error
	}
	results := make([][]apiRes, n)
	commitOK := make([]int, n)
	curStep := make([]string, n) // API call in flight per candidate
	inAPIGet := make([]bool, n)  // only what a candidate reads through the API's Get counts as "what it last read"
	window := make([][2]int, n)  // first/last global step index of get->write windows, for the overlap label
	for i := 0; i < n; i++ {
		i := i
		sh := NewShim(eng.KV, strings.Contains(c.Engine, EngMem))
		sh.FixedClient = i
		sh.Gate = sched.GateFunc
		sh.OnGetResult = func(client int, key, val []byte, err error) {
			if !bytes.Equal(key, electionKey) {
				return
			}
			mu.Lock()
			defer mu.Unlock()
			if err == nil {
				if inAPIGet[i] {
					observed[i], hasObserved[i] = cp(val), true
				}
				if !bytes.Equal(val, record) && modelErr == nil {
					modelErr = fmt.Errorf("candidate %d read a record that is not the last accepted write", i)
				}
			}
		}
		sh.AfterCommit = func(ci *CommitInfo, err error) {
			if err != nil {
				return
			}
			mu.Lock()
			defer mu.Unlock()
			for _, op := range ci.Ops {
				if !bytes.Equal(op.Key, electionKey) {
					continue
				}
				commitOK[i]++
				kind := op.Kind
				if curStep[i] == "create" {
					kind = "pine" // whatever storage operation the create used
				}
				switch kind {
				case "pine":
					if record != nil && modelErr == nil {
						modelErr = fmt.Errorf("candidate %d's create was accepted although a record existed (%s)", i, record)
					}
					observed[i], hasObserved[i] = cp(op.Val), true
				case "cas", "put":
					if modelErr == nil {
						if !hasObserved[i] {
							modelErr = fmt.Errorf("candidate %d's update was accepted although it never read the record", i)
						} else if !bytes.Equal(record, observed[i]) {
							modelErr = fmt.Errorf("candidate %d's update was accepted although the record (%s) is no longer what it last read (%s): an accepted record was silently overwritten", i, record, observed[i])
						}
					}
				}
				record = cp(op.Val)
			}
		}
		shims[i] = sh
		locks[i] = election.NewResourceLockManager(election.Config{Prefix: Prefix, Identity: fmt.Sprintf("cand-%d", i), Timeout: 30 * time.Second}, sh).GetResourceLock()
	}
	apiGet := func(i int) error {
		mu.Lock()
		inAPIGet[i] = true
		mu.Unlock()
		_, err := locks[i].Get()
		mu.Lock()
		inAPIGet[i] = false
		mu.Unlock()
		return err
	}
	programs := make([]func(ctx context.Context), n)
	// the record each candidate last wrote successfully: "renew-same" writes it again unchanged (a renewal retried
	// within the same second encodes to the same bytes)
	lastRec := make([]*resourcelock.LeaderElectionRecord, n)
	for i := 0; i < n; i++ {
		i := i
		programs[i] = func(ctx context.Context) {
			id := fmt.Sprintf("cand-%d", i)
			for _, step := range c.Programs[i] {
				switch step {
				case "get":
					err := apiGet(i)
					results[i] = append(results[i], apiRes{"get", err})
				case "create":
					mu.Lock()
					curStep[i] = "create"
					mu.Unlock()
					rec := mkRecord(id)
					err := locks[i].Create(rec)
					if err == nil {
						lastRec[i] = &rec
					}
					results[i] = append(results[i], apiRes{"create", err})
				case "update", "renew-same":
					mu.Lock()
					curStep[i] = "update"
					mu.Unlock()
					rec := mkRecord(id)
					if step == "renew-same" && lastRec[i] != nil {
						rec = *lastRec[i]
					}
					err := locks[i].Update(rec)
					if err == nil {
						lastRec[i] = &rec
					}
					results[i] = append(results[i], apiRes{"update", err})
				case "release":
					// what client-go's release() writes: a record with an empty holder
					mu.Lock()
					curStep[i] = "update"
					mu.Unlock()
					rec := mkRecord("")
					err := locks[i].Update(rec)
					results[i] = append(results[i], apiRes{"update", err})
				case "acquire":
					err := apiGet(i)
					results[i] = append(results[i], apiRes{"get", err})
					if err != nil {
						if strings.Contains(err.Error(), "not found") {
							mu.Lock()
							curStep[i] = "create"
							mu.Unlock()
							rec := mkRecord(id)
							err = locks[i].Create(rec)
							if err == nil {
								lastRec[i] = &rec
							}
							results[i] = append(results[i], apiRes{"create", err})
						}
					} else {
						mu.Lock()
						curStep[i] = "update"
						mu.Unlock()
						rec := mkRecord(id)
						err = locks[i].Update(rec)
						if err == nil {
							lastRec[i] = &rec
						}
						results[i] = append(results[i], apiRes{"update", err})
					}
				}
			}
		}
	}
	if err := sched.Run(programs, choices); err != nil {
		return nil, Inconclusivef("%v", err)
	}
	res := &c14Result{branch: sched.Branch}
	if modelErr != nil {
		return res, fmt.Errorf("%v\nschedule: %s", modelErr, strings.Join(sched.Trace, " "))
	}
	// API results agree with what storage accepted
	for i := 0; i < n; i++ {
		okWrites := 0
		for _, r := range results[i] {
			if (r.step == "create" || r.step == "update") && r.err == nil {
				okWrites++
			}
		}
		res.writes += okWrites
		if okWrites != commitOK[i] {
			return res, fmt.Errorf("candidate %d: %d create/update calls reported success but storage accepted %d writes of the lock record\nschedule: %s", i, okWrites, commitOK[i], strings.Join(sched.Trace, " "))
		}
	}
	// the stored record is the last accepted write
	final, err := eng.KV.Get(context.Background(), electionKey)
	if err == storage.ErrKeyNotFound {
		final = nil
	} else if err != nil {
		return res, Inconclusivef("final get: %v", err)
	}
	if !bytes.Equal(final, record) {
		return res, fmt.Errorf("the stored lock record (%s) is not the last accepted write (%s)", final, record)
	}
	// overlap: some candidate's get->write window contains another candidate's step
	_ = window
	last := map[int]string{}
	for _, tr := range sched.Trace {
		var id int
		var point string
		fmt.Sscanf(strings.Replace(tr, "@", " ", 1), "%d %s", &id, &point)
		for other, p := range last {
			if other != id && p == "get" && point != "start" {
				res.overlap = true
			}
		}
		last[id] = point
	}
	return res, nil
}

func runC14(ci interface{}, st *CaseStats) error {
	c := ci.(*c14Case)
	st.Label("engine:" + c.Engine)
	if !c.Exhaustive {
		res, err := c14RunOnce(c, c.Sched)
		if err != nil {
			return err
		}
		st.Label("mode:sampled-schedule")
		if res.overlap {
			st.Nontrivial()
		}
		return nil
	}
	// enumerate the whole schedule tree (odometer over the branching factors observed)
	st.Label("mode:exhaustive-schedules")
	choices := []int{}
	count := 0
	anyOverlap := false
	for {
		res, err := c14RunOnce(c, choices)
		if err != nil {
			if _, inc := err.(*Inconclusive); !inc {
				c.Sched, c.Exhaustive = choices, false // replayable as a single schedule
			}
			return err
		}
		count++
		if res.overlap {
			anyOverlap = true
		}
		// next schedule: increment the last position that can still be incremented
		full := make([]int, len(res.branch))
		copy(full, choices)
		i := len(full) - 1
		for i >= 0 && full[i]+1 >= res.branch[i] {
			i--
		}
		if i < 0 {
			break
		}
		full[i]++
		choices = full[:i+1]
		if count > 20000 {
			return Inconclusivef("schedule tree larger than 20000")
		}
	}
	st.Count("schedules_enumerated", count)
	if anyOverlap {
		st.Nontrivial()
	}
	return nil
}

var specC14 = &Spec{
	ID:          "C14",
	Rule:        "case = 2..3 candidates (real resourcelock.Interface from election.NewResourceLockManager over one shared store, each behind its own shim), each with 1..5 steps from {get, create, update, renew-same = update that writes the candidate's last accepted record again unchanged, release = update to an empty holder, acquire = client-go protocol get->create|update} (so protocol-breaking programs occur), optionally a pre-existing record, and a schedule over the storage steps; exhaustive shards: 2 candidates x <=3 steps with EVERY schedule enumerated per case. Oracle = register model of the record in commit order: a create is accepted only on an absent record, an update only if the record equals what that candidate last read or created, API success <=> storage accepted the write, stored record = last accepted write, every read returns the last accepted write. Non-trivial = some candidate performs a step between another candidate's get and its following write; distinct = SHA-1 of the case",
	Gen:         genC14,
	New:         func() interface{} { return &c14Case{} },
	Run:         runC14,
	Assumptions: []string{"spurious failures of create/update are allowed (the statement only bounds successes)"},
	Engines:     []string{EngMem, EngBadger, EngTiKV},
}

func TestC14(t *testing.T) { RunProperty(t, specC14) }
