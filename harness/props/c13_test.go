package props

import (
	"bytes"
	"fmt"
	"sort"
	"sync/atomic"
	"testing"

	"pgregory.net/rapid"

	proto "github.com/kubewharf/kubebrain-client/api/v2rpc"

	"github.com/kubewharf/kubebrain/pkg/storage"
)

// C13 — range results do not depend on how the engine partitions the key space

type c13Border struct {
	K      int `json:"key"`    // index into the key pool; >= len(pool) selects a foreign (not stored) raw key
	RevSel int `json:"revsel"` // -1: the index record; otherwise selects a revision (stored or not)
}

type c13Case struct {
	Mode    string // shim (memkv with injected partitions) | regions (TiKV mock split at the borders)
	Keys    []string
	Hist    []WOp
	Borders []c13Border
	Shuffle []int
	RevSel  int
	Start   int
	End     int
	// Bulk adds this many extra keys (created once each) so that streamed batches fill up (batch size 300)
	Bulk int `json:"bulk,omitempty"`
	// FaultNext > 0 (mode shim-faults): while the unlimited range read runs, the engine fails the FaultNext-th
	// iterator step once (a transient error: the scanner's own retry must still produce the exact answer)
	FaultNext int `json:"faultNext,omitempty"`
	// FaultStream: the same transient error during an additional whole-range stream
	FaultStream bool `json:"faultStream,omitempty"`
}

var c13Foreign = []string{"a/a", "a/b/", "a~", "b0", "0", "zz"}

func genC13(t *rapid.T) interface{} {
	c := &c13Case{Mode: EnvStr("VERIF_MODE", "shim")}
	c.Keys = genKeyPool(t, 2, 6)
	nh := rapid.IntRange(3, 24).Draw(t, "nhist")
	for i := 0; i < nh; i++ {
		op := genWOp(t, len(c.Keys))
		if op.Kind != "create" && DrawBool(t, 65, "forceOk") {
			op.Exp = "ok"
		}
		c.Hist = append(c.Hist, *op)
	}
	nb := rapid.IntRange(0, 5).Draw(t, "nborders")
	for i := 0; i < nb; i++ {
		b := c13Border{K: DrawIntn(t, len(c.Keys)+2, "bkey"), RevSel: rapid.IntRange(-1, 30).Draw(t, "brev")}
		if DrawBool(t, 25, "indexRecord") {
			b.RevSel = -1
		}
		c.Borders = append(c.Borders, b)
	}
	if DrawBool(t, 6, "bulk") {
		c.Bulk = rapid.SampledFrom([]int{290, 299, 300, 301, 320, 610}).Draw(t, "nbulk")
	}
	if c.Mode == "shim-faults" {
		c.FaultNext = rapid.IntRange(1, 30).Draw(t, "faultNext")
		if DrawBool(t, 50, "bulkF") {
			c.Bulk = rapid.SampledFrom([]int{40, 301, 320, 610}).Draw(t, "nbulkF")
			c.FaultNext = rapid.IntRange(1, 2*c.Bulk+40).Draw(t, "faultNextBulk") // two records per key
		}
		c.FaultStream = DrawBool(t, 50, "faultStream")
	}
	c.Shuffle = rapid.SliceOfN(rapid.IntRange(0, 1000), 6, 6).Draw(t, "shuffle")
	c.RevSel = rapid.OneOf(rapid.Just(-1), rapid.IntRange(-2, 30)).Draw(t, "revsel")
	nbound := len(boundPool(c.Keys))
	if DrawBool(t, 60, "wholePrefix") {
		c.Start, c.End = -1, -1
	} else {
		c.Start, c.End = DrawIntn(t, nbound, "start"), DrawIntn(t, nbound, "end")
	}
	return c
}

func (c *c13Case) borderKeys(init, cur uint64, m *Model) [][]byte {
	var out [][]byte
	for _, b := range c.Borders {
		var raw string
		var multi []string
		for _, k := range m.SortedKeys() {
			if len(m.Keys[k]) >= 2 {
				multi = append(multi, k)
			}
		}
		if b.K < len(c.Keys) && len(multi) > 0 && b.RevSel%4 != 3 {
			raw = multi[b.K%len(multi)] // steer into a multi-version key
		} else if b.K < len(c.Keys) {
			raw = FullKey(c.Keys[b.K])
		} else {
			raw = FullKey(c13Foreign[(b.K+b.RevSel+7)%len(c13Foreign)])
		}
		var rev uint64
		if b.RevSel >= 0 {
			span := cur - init + 3
			rev = init + uint64(b.RevSel)%span
			// prefer positions inside the key's actual version run: a stored version, or just after one
			if vs := m.Keys[raw]; len(vs) > 0 {
				v := vs[b.RevSel%len(vs)].Rev
				switch (b.RevSel / len(vs)) % 3 {
				case 0:
					rev = v
				case 1:
					rev = v + 1
				}
			}
			if rev == 0 {
				rev = 1
			}
		}
		k := shimCoder.EncodeObjectKey([]byte(raw), rev)
		dup := false
		for _, o := range out {
			if bytes.Equal(o, k) {
				dup = true
			}
		}
		if !dup { // a cluster never has two identical split keys
			out = append(out, k)
		}
	}
	sort.Slice(out, func(i, j int) bool { return bytes.Compare(out[i], out[j]) < 0 })
	return out
}

func kvMultiset(kvs []*proto.KeyValue) map[string]int {
	m := map[string]int{}
	for _, kv := range kvs {
		m[fmt.Sprintf("%s\x00%s\x00%d", kv.Key, kv.Value, kv.Revision)]++
	}
	return m
}

func compareMultiset(got []*proto.KeyValue, want []MKV, what string) error {
	gm := kvMultiset(got)
	for _, w := range want {
		k := fmt.Sprintf("%s\x00%s\x00%d", w.Key, w.Val, w.Rev)
		switch gm[k] {
		case 1:
			delete(gm, k)
		case 0:
			// maybe present with another version
			for _, g := range got {
				if string(g.Key) == w.Key {
					return fmt.Errorf("%s: key %q returned at revision %d (%q), the unpartitioned read has revision %d (%q)", what, w.Key, g.Revision, trunc(g.Value), w.Rev, trunc(w.Val))
				}
			}
			return fmt.Errorf("%s: key %q @%d is missing", what, w.Key, w.Rev)
		default:
			return fmt.Errorf("%s: key %q @%d returned %d times", what, w.Key, w.Rev, gm[k])
		}
	}
	for k, n := range gm {
		parts := bytes.SplitN([]byte(k), []byte{0}, 3)
		return fmt.Errorf("%s: unexpected extra result key %q (x%d, %s) — duplicated, stale or not qualifying", what, parts[0], n, parts[2])
	}
	return nil
}

func runC13(ci interface{}, st *CaseStats) error {
	c := ci.(*c13Case)
	keys := make([]string, len(c.Keys))
	for i, k := range c.Keys {
		keys[i] = FullKey(k)
	}
	// revisions are deterministic: attempt i gets InitRev+i, so borders can be computed before the history runs
	cur0 := InitRev + uint64(len(c.Hist))
	// dry run on memkv: the histories are deterministic, so its model tells where each key's versions are
	dry, err := NewSeqEnv(SeqOpts{Engine: EngMem, Keys: keys, Backend: BackendOpts{Etcd: true}})
	if err != nil {
		return Inconclusivef("engine: %v", err)
	}
	for i, op := range c.Hist {
		if _, err := dry.DoWrite(op); err != nil {
			dry.Close()
			return fmt.Errorf("history step %d: %v", i, err)
		}
	}
	dry.Close()
	bulkKeys := make([]string, c.Bulk)
	for i := range bulkKeys {
		bulkKeys[i] = FullKey(fmt.Sprintf("bulk/%04d", i))
	}
	borders := c.borderKeys(InitRev, cur0, dry.M)
	var env *SeqEnv
	if c.Mode == "regions" {
		env, err = NewSeqEnv(SeqOpts{Engine: EngTiKV, Keys: keys, SplitKeys: borders, Backend: BackendOpts{Etcd: true}})
	} else {
		env, err = NewSeqEnv(SeqOpts{Engine: EngMem, Keys: keys, UseShim: true, Backend: BackendOpts{Etcd: true}})
	}
	if err != nil {
		return Inconclusivef("engine: %v", err)
	}
	defer env.Close()
	st.Label("mode:" + c.Mode)
	if env.Shim != nil {
		env.Shim.Partitions = func(start, end []byte) []storage.Partition {
			var inner [][]byte
			seen := map[string]bool{}
			for _, b := range borders {
				if bytes.Compare(b, start) > 0 && bytes.Compare(b, end) < 0 && !seen[string(b)] {
					seen[string(b)] = true
					inner = append(inner, b)
				}
			}
			sort.Slice(inner, func(i, j int) bool { return bytes.Compare(inner[i], inner[j]) < 0 })
			pts := append(append([][]byte{start}, inner...), end)
			var ps []storage.Partition
			for i := 0; i+1 < len(pts); i++ {
				ps = append(ps, storage.Partition{Start: cp(pts[i]), End: cp(pts[i+1])})
			}
			// any order
			for i := len(ps) - 1; i > 0; i-- {
				j := c.Shuffle[i%len(c.Shuffle)] % (i + 1)
				ps[i], ps[j] = ps[j], ps[i]
			}
			return ps
		}
	}
	for i, op := range c.Hist {
		if _, err := env.DoWrite(op); err != nil {
			return fmt.Errorf("history step %d: %v", i, err)
		}
	}
	if c.Bulk > 0 {
		// many keys after the history (so that the history's revisions stay where the dry run put them)
		env.Keys = append(env.Keys, bulkKeys...)
		for i := range bulkKeys {
			if _, err := env.DoWrite(WOp{Kind: "create", K: len(keys) + i}); err != nil {
				return fmt.Errorf("bulk create %d: %v", i, err)
			}
		}
		st.Label("bulk-keys")
	}
	if err := env.Settle(); err != nil {
		return err
	}
	cur := env.B.GetCurrentRevision()
	bounds := boundPool(c.Keys)
	a, b := []byte(Prefix+"/"), []byte(Prefix+"0")
	if c.Start >= 0 {
		a, b = bounds[c.Start%len(bounds)], bounds[c.End%len(bounds)]
		if bytes.Compare(a, b) > 0 {
			a, b = b, a
		}
		if bytes.Equal(a, b) || bytes.Equal(b, []byte{0}) || bytes.Equal(a, []byte{0}) {
			a, b = []byte(Prefix+"/"), []byte(Prefix+"0")
		}
	}
	var rev uint64
	if c.RevSel >= 0 && cur > env.Init {
		rev = env.Init + 1 + uint64(c.RevSel)%(cur-env.Init)
	}
	use := rev
	if use == 0 {
		use = cur
	}
	want, _ := env.M.Range(a, b, use, 0)
	ia, ib := shimCoder.EncodeObjectKey(a, 0), shimCoder.EncodeObjectKey(b, 0)

	// classification: a border strictly inside one key's version run, with versions <= R on both sides
	split := false
	nInner := 0
	for _, bk := range borders {
		if bytes.Compare(bk, ia) <= 0 || bytes.Compare(bk, ib) >= 0 {
			continue
		}
		nInner++
		raw, brev, derr := shimCoder.Decode(bk)
		if derr != nil || brev == 0 {
			continue
		}
		below, above := 0, 0
		for _, v := range env.M.Keys[string(raw)] {
			if v.Rev > use {
				continue
			}
			if v.Rev < brev {
				below++
			} else {
				above++
			}
		}
		if below > 0 && above > 0 {
			split = true
		}
	}
	st.Labelf("inner-borders:%d", nInner)

	// 1. unlimited range read
	var nextCount int64
	var armed int32
	if c.FaultNext > 0 && env.Shim != nil {
		env.Shim.OnNext = func(iterIdx, pos int) Decision {
			if atomic.LoadInt32(&armed) == 1 && atomic.AddInt64(&nextCount, 1) == int64(c.FaultNext) {
				atomic.StoreInt32(&armed, 0)
				return FailNoApply
			}
			return Pass
		}
		atomic.StoreInt32(&armed, 1)
	}
	if _, err := env.CheckList(a, b, rev, 0); err != nil {
		return fmt.Errorf("partitioned List (transient iterator error at step %d: %v): %v", c.FaultNext, c.FaultNext > 0, err)
	}
	if c.FaultNext > 0 {
		if atomic.LoadInt32(&armed) == 0 {
			st.Label("transient-iterator-error-during-list")
		} else {
			st.Label("fault-not-reached")
		}
		atomic.StoreInt32(&armed, 0)
	}
	// 2. count (served at the current revision)
	if err := env.CheckCount(a, b); err != nil {
		return fmt.Errorf("partitioned Count: %v", err)
	}
	// 3. whole-range stream
	stream := func(s, e []byte, what string) ([]*proto.KeyValue, error) {
		ch, err := env.B.ListByStream(env.Ctx, s, e, rev)
		if err != nil {
			return nil, fmt.Errorf("%s: ListByStream returned %v", what, err)
		}
		kvs, _, terms, errText, after, hdrs, timedOut := readStream(ch)
		if timedOut {
			return nil, fmt.Errorf("%s: stream never ended", what)
		}
		if terms != 1 || after != 0 {
			return nil, fmt.Errorf("%s: %d terminators, %d messages after the terminator", what, terms, after)
		}
		if errText != "" {
			return nil, fmt.Errorf("%s: stream ended with error %q", what, errText)
		}
		for _, h := range hdrs {
			if h != use {
				return nil, fmt.Errorf("%s: a data batch names revision %d, the read revision is %d", what, h, use)
			}
		}
		return kvs, nil
	}
	if c.FaultStream && c.FaultNext > 0 && env.Shim != nil {
		atomic.StoreInt64(&nextCount, 0)
		atomic.StoreInt32(&armed, 1)
		kvs, err := stream(ia, ib, "whole-range stream with a transient iterator error")
		fired := atomic.LoadInt32(&armed) == 0
		atomic.StoreInt32(&armed, 0)
		if err != nil {
			return err
		}
		if fired {
			st.Label("transient-iterator-error-during-stream")
		}
		if err := compareMultiset(kvs, want, fmt.Sprintf("whole-range stream [%q,%q) at %d with a transient iterator error at step %d (fired=%v)", a, b, use, c.FaultNext, fired)); err != nil {
			return err
		}
	}
	kvs, err := stream(ia, ib, "whole-range stream")
	if err != nil {
		return err
	}
	if err := compareMultiset(kvs, want, fmt.Sprintf("whole-range stream [%q,%q) at %d", a, b, use)); err != nil {
		return err
	}
	// 4. streams per advertised partition
	pr, err := env.B.GetPartitions(env.Ctx, &proto.ListPartitionRequest{Key: a, End: b})
	if err != nil {
		return fmt.Errorf("GetPartitions: %v", err)
	}
	if len(pr.PartitionKeys) < 2 {
		return fmt.Errorf("GetPartitions advertises %d keys", len(pr.PartitionKeys))
	}
	var all []*proto.KeyValue
	for i := 0; i+1 < len(pr.PartitionKeys); i++ {
		s, e := pr.PartitionKeys[i], pr.PartitionKeys[i+1]
		if bytes.Compare(s, e) >= 0 {
			if bytes.Equal(s, e) {
				continue // empty piece
			}
			return fmt.Errorf("advertised partition keys are not ascending: %q then %q", s, e)
		}
		kvs, err := stream(s, e, fmt.Sprintf("stream over advertised partition %d", i))
		if err != nil {
			return err
		}
		all = append(all, kvs...)
	}
	if !bytes.Equal(pr.PartitionKeys[0], ia) || !bytes.Equal(pr.PartitionKeys[len(pr.PartitionKeys)-1], ib) {
		return fmt.Errorf("advertised partitions do not span the requested interval: first %q last %q", pr.PartitionKeys[0], pr.PartitionKeys[len(pr.PartitionKeys)-1])
	}
	if err := compareMultiset(all, want, fmt.Sprintf("concatenated streams over %d advertised partitions of [%q,%q) at %d", len(pr.PartitionKeys)-1, a, b, use)); err != nil {
		return err
	}
	if int(pr.PartitionNum) > 1 {
		st.Label("advertised:multi")
	}
	if split {
		st.Label("border-splits-version-run")
		st.Nontrivial()
	}
	return nil
}

// probeC13StreamRetry: a worker of a streamed range hits a transient iterator error after it has sent a full batch;
// its retry must not deliver those keys again
func probeC13StreamRetry() (bool, string) {
	c := &c13Case{Mode: "shim-faults", Keys: []string{"a", "b"}, Hist: []WOp{{Kind: "create", K: 0}, {Kind: "create", K: 1}, {Kind: "update", K: 0, Exp: "ok"}},
		Shuffle: []int{1, 2, 3, 4, 5, 6}, RevSel: -1, Start: -1, End: -1, Bulk: 610, FaultNext: 700, FaultStream: true}
	err := runC13(c, &CaseStats{})
	if err == nil {
		return false, ""
	}
	if _, inc := err.(*Inconclusive); inc {
		return false, err.Error()
	}
	return true, err.Error()
}

var specC13 = &Spec{
	ID:   "C13",
	Rule: "case = history of 3..24 writes over 2..6 prefix-related keys, 0..5 partition borders (index record of a stored key, any revision of a stored key — stored or not —, well-formed internal keys of keys that are not stored), a shuffle of the partition order, a read revision and a range; 6% of the cases add 290..610 further keys so that streamed batches fill up; mode shim = memkv with the borders injected through GetPartitions in shuffled order, mode regions = TiKV mock cluster split into regions at the same borders (real ScanRegions path), mode shim-faults = mode shim plus one transient iterator error at a generated step of the unlimited range read and of a whole-range stream (the scanner's own retry must leave the answer exact; 50% of these cases hold 40..610 extra keys so that the error falls after batches were already streamed). Oracle = reference model snapshot: unlimited List exact, Count, whole-range stream and the concatenation of streams over advertised partitions as multisets with multiplicity 1 and the right version; every data batch names the read revision; exactly one terminator, no error, nothing after it. Non-trivial = a border strictly inside one key's version run with versions <= R on both sides; distinct = SHA-1 of the case",
	Gen:  genC13,
	New:  func() interface{} { return &c13Case{} },
	Run:  runC13,
	Probes: map[string]func() (bool, string){
		"stream-retry-resends-batches": probeC13StreamRetry,
	},
	Assumptions: []string{"borders are well-formed internal keys (the forms an engine that splits at existing keys can produce)",
		"mode shim-faults adds one transient iterator error (the engine fails one iterator step once) to the unlimited range read and to a whole-range stream; a read that still answers successfully must answer exactly"},
	Engines: []string{EngMem + "+shim", EngTiKV + "+regions"},
}

func TestC13(t *testing.T) { RunProperty(t, specC13) }
