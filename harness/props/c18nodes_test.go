package props

// C18, integrated mode: two complete nodes — endpoint.Run (cmux client and peer ports, gRPC + HTTP), the real
// election over the shared store, the real /status handler, the real revision syncer and the real etcd proxy —
// driven through gRPC clients. The handler-level mode (c18_test.go) decides which backend methods a follower may
// call; this mode decides the end-to-end statement: what a follower answers reflects every write the leader had
// committed before the read began, a follower never changes the store by itself, the leader publishes its
// committed revision and a non-leader refuses to.

import (
	"bytes"
	"context"
	"encoding/json"
	"fmt"
	"io"
	"net"
	"net/http"
	"os"
	"path/filepath"
	"sort"
	"strconv"
	"strings"
	"sync/atomic"
	"testing"
	"time"

	"go.etcd.io/etcd/api/v3/etcdserverpb"
	"google.golang.org/grpc"
	"google.golang.org/grpc/codes"
	"google.golang.org/grpc/status"
	"pgregory.net/rapid"

	proto "github.com/kubewharf/kubebrain-client/api/v2rpc"

	"github.com/kubewharf/kubebrain/pkg/backend"
	"github.com/kubewharf/kubebrain/pkg/endpoint"
	"github.com/kubewharf/kubebrain/pkg/server/service/revision"
	"github.com/kubewharf/kubebrain/pkg/storage"
)

type c18nStep struct {
	Kind string `json:"kind"` // lwrite | fread | fwrite | fwatch | burst | status | down
	API  string `json:"api,omitempty"`
	Op   string `json:"op,omitempty"`
	K    int    `json:"key,omitempty"`
	N    int    `json:"n,omitempty"`
	U    int    `json:"u,omitempty"` // fhostile: which structurally valid but unsupported transaction
}

type c18nCase struct {
	Proxy bool
	Steps []c18nStep
}

func genC18Nodes(t *rapid.T) interface{} {
	c := &c18nCase{Proxy: rapid.IntRange(0, 99).Draw(t, "proxyPct") >= 70}
	n := rapid.IntRange(4, 16).Draw(t, "nsteps")
	c.Steps = append(c.Steps, c18nStep{Kind: "lwrite", API: "brain", Op: "create", K: 0})
	for i := 1; i < n; i++ {
		s := c18nStep{API: rapid.SampledFrom([]string{"brain", "etcd"}).Draw(t, "api"), K: DrawIntn(t, 4, "key")}
		switch rapid.IntRange(0, 11).Draw(t, "class") {
		case 0, 1, 2:
			s.Kind, s.Op = "lwrite", rapid.SampledFrom([]string{"create", "update", "update", "delete"}).Draw(t, "wop")
		case 3, 4, 5, 6:
			s.Kind, s.Op = "fread", rapid.SampledFrom([]string{"get", "get", "list", "count", "stream"}).Draw(t, "rop")
		case 7, 8:
			s.Kind, s.Op = "fwrite", rapid.SampledFrom([]string{"create", "update", "delete", "compact"}).Draw(t, "fwop")
		case 9:
			s.Kind = "fwatch"
		case 10:
			if DrawBool(t, 50, "hostile") {
				s.Kind, s.U = "fhostile", DrawIntn(t, len(c16Unsupported), "u")
				break
			}
			s.Kind, s.N = "burst", rapid.IntRange(3, 25).Draw(t, "burst")
		default:
			s.Kind = "status"
		}
		c.Steps = append(c.Steps, s)
	}
	if c.Proxy {
		// a follower with the proxy on hands transactions to the leader without looking inside: every unsupported
		// shape is worth sending there
		for i := 0; i < rapid.IntRange(2, 6).Draw(t, "nhostile"); i++ {
			c.Steps = append(c.Steps, c18nStep{Kind: "fhostile", API: "etcd", K: DrawIntn(t, 4, "hkey"), U: DrawIntn(t, len(c16Unsupported), "hu")})
		}
	}
	if rapid.SampledFrom([]bool{false, false, true}).Draw(t, "leaderDown") {
		c.Steps = append(c.Steps, c18nStep{Kind: "down"})
		for i := 0; i < 3; i++ {
			c.Steps = append(c.Steps, c18nStep{Kind: "fread", API: rapid.SampledFrom([]string{"brain", "etcd"}).Draw(t, "dapi"),
				Op: rapid.SampledFrom([]string{"get", "list", "count", "stream"}).Draw(t, "drop"), K: DrawIntn(t, 4, "dkey")})
		}
	}
	return c
}

var c18nPortSeq int32

// c18nPorts picks two adjacent free ports below the ephemeral range (servers of parallel shards use ephemeral ports)
func c18nPorts() (int, int, error) {
	for tries := 0; tries < 400; tries++ {
		n := int(atomic.AddInt32(&c18nPortSeq, 1))
		base := 12000 + (os.Getpid()%190)*100 + (n*2)%100
		ok := true
		for _, p := range []int{base, base + 1} {
			l, err := net.Listen("tcp", fmt.Sprintf(":%d", p))
			if err != nil {
				ok = false
				break
			}
			_ = l.Close()
		}
		if ok {
			return base, base + 1, nil
		}
	}
	return 0, 0, fmt.Errorf("no free port pair")
}

type c18nNode struct {
	b          backend.Backend
	cancel     context.CancelFunc
	done       chan error
	port, peer int
	conn       *grpc.ClientConn
	read       proto.ReadClient
	write      proto.WriteClient
	watch      proto.WatchClient
	kv         etcdserverpb.KVClient
	ewatch     etcdserverpb.WatchClient
}

func startC18nNode(kv storage.KvStorage, proxy bool) (*c18nNode, error) {
	port, peer, err := c18nPorts()
	if err != nil {
		return nil, err
	}
	n := &c18nNode{port: port, peer: peer, done: make(chan error, 1)}
	n.b = backend.NewBackend(kv, backend.Config{EnableEtcdCompatibility: true, Prefix: Prefix, Identity: fmt.Sprintf("127.0.0.1:%d", peer), WatchCacheSize: 1024}, NopMetrics)
	ctx, cancel := context.WithCancel(context.Background())
	n.cancel = cancel
	ep := endpoint.NewEndpoint(n.b, NopMetrics, &endpoint.Config{Port: port, PeerPort: peer,
		ClientSecurityConfig: &endpoint.SecurityConfig{}, PeerSecurityConfig: &endpoint.SecurityConfig{}, EnableEtcdCompatibility: proxy})
	go func() { n.done <- ep.Run(ctx) }()
	// wait for the listener before dialling (a refused first attempt costs gRPC a one-second back-off)
	for deadline := time.Now().Add(10 * time.Second); time.Now().Before(deadline); time.Sleep(time.Millisecond) {
		if cn, derr := net.DialTimeout("tcp", fmt.Sprintf("127.0.0.1:%d", port), time.Second); derr == nil {
			_ = cn.Close()
			break
		}
	}
	dctx, dcancel := context.WithTimeout(context.Background(), 10*time.Second)
	defer dcancel()
	n.conn, err = grpc.DialContext(dctx, fmt.Sprintf("127.0.0.1:%d", port), grpc.WithInsecure(), grpc.WithBlock())
	if err != nil {
		select {
		case rerr := <-n.done:
			err = fmt.Errorf("%v (endpoint: %v)", err, rerr)
		default:
		}
		cancel()
		StopBackend(n.b)
		return nil, err
	}
	n.read, n.write, n.watch = proto.NewReadClient(n.conn), proto.NewWriteClient(n.conn), proto.NewWatchClient(n.conn)
	n.kv, n.ewatch = etcdserverpb.NewKVClient(n.conn), etcdserverpb.NewWatchClient(n.conn)
	return n, nil
}

func (n *c18nNode) stop() {
	if n.conn != nil {
		_ = n.conn.Close()
	}
	n.cancel()
	select {
	case <-n.done:
	case <-time.After(5 * time.Second):
	}
	StopBackend(n.b)
}

// status asks a node's peer port for its revision, as a follower does
func (n *c18nNode) status() (int, uint64, error) {
	cl := &http.Client{Timeout: 5 * time.Second}
	resp, err := cl.Get(fmt.Sprintf("http://127.0.0.1:%d/status", n.peer))
	if err != nil {
		return 0, 0, err
	}
	defer resp.Body.Close()
	body, _ := io.ReadAll(resp.Body)
	lr := &revision.LeaderRevision{}
	_ = json.Unmarshal(body, lr)
	return resp.StatusCode, lr.Revision, nil
}

type c18nVal struct {
	val []byte
	rev uint64
}

type c18nWorld struct {
	leader, follower *c18nNode
	keys             []string
	model            map[string]c18nVal
	maxAcked         uint64
	seq              int
	down             bool
	proxy            bool
}

func c18nCtx() (context.Context, context.CancelFunc) {
	return context.WithTimeout(context.Background(), 15*time.Second)
}

// write performs one write through node n; returns (succeeded, revision, error)
func (w *c18nWorld) write(n *c18nNode, api, op, key string, val []byte) (bool, uint64, error) {
	ctx, cancel := c18nCtx()
	defer cancel()
	cur, live := w.model[key]
	k := []byte(key)
	if api == "brain" {
		switch op {
		case "create":
			r, err := n.write.Create(ctx, &proto.CreateRequest{Key: k, Value: val})
			if err != nil {
				return false, 0, err
			}
			return r.Succeeded, r.Header.GetRevision(), nil
		case "update":
			r, err := n.write.Update(ctx, &proto.UpdateRequest{Kv: &proto.KeyValue{Key: k, Value: val, Revision: cur.rev}})
			if err != nil {
				return false, 0, err
			}
			return r.Succeeded, r.Header.GetRevision(), nil
		case "delete":
			r, err := n.write.Delete(ctx, &proto.DeleteRequest{Key: k, Revision: cur.rev})
			if err != nil {
				return false, 0, err
			}
			return r.Succeeded, r.Header.GetRevision(), nil
		case "compact":
			_, err := n.write.Compact(ctx, &proto.CompactRequest{Revision: maxU64(w.maxAcked, 1)})
			return err == nil, 0, err
		}
	}
	var req *etcdserverpb.TxnRequest
	switch op {
	case "create":
		req = txnCreate(k, val)
	case "update":
		req = txnUpdate(k, val, int64(cur.rev))
	case "delete":
		rev := int64(cur.rev)
		if !live || rev == 0 {
			rev = 1
		}
		req = txnDelete(k, rev)
	case "compact":
		_, err := n.kv.Compact(ctx, &etcdserverpb.CompactionRequest{Revision: int64(maxU64(w.maxAcked, 1))})
		return err == nil, 0, err
	}
	r, err := n.kv.Txn(ctx, req)
	if err != nil {
		return false, 0, err
	}
	return r.Succeeded, uint64(r.Header.GetRevision()), nil
}

// apply records a write in the model once the leader has committed it (an acknowledged write becomes readable, on
// the leader too, when the committed revision reaches it)
func (w *c18nWorld) apply(op, key string, val []byte, rev uint64) {
	if !w.down {
		WaitCommitted(w.leader.b, rev, 10*time.Second)
	}
	if op == "delete" {
		delete(w.model, key)
	} else if op != "compact" {
		w.model[key] = c18nVal{val: val, rev: rev}
	}
	if rev > w.maxAcked {
		w.maxAcked = rev
	}
}

// effectiveOp turns the drawn write into one whose condition holds in the current state
func (w *c18nWorld) effectiveOp(op, key string) string {
	_, live := w.model[key]
	switch {
	case op == "compact":
		return op
	case !live:
		return "create"
	case op == "create":
		return "update"
	}
	return op
}

type c18nKV struct {
	key string
	val []byte
	rev uint64
}

func (w *c18nWorld) expectList() []c18nKV {
	var out []c18nKV
	for k, v := range w.model {
		out = append(out, c18nKV{k, v.val, v.rev})
	}
	sort.Slice(out, func(i, j int) bool { return out[i].key < out[j].key })
	return out
}

func fmtC18nKVs(kvs []c18nKV) string {
	var sb strings.Builder
	for _, kv := range kvs {
		fmt.Fprintf(&sb, "%s=%q@%d ", kv.key, kv.val, kv.rev)
	}
	return sb.String()
}

func sameC18nKVs(a, b []c18nKV) bool {
	if len(a) != len(b) {
		return false
	}
	for i := range a {
		if a[i].key != b[i].key || !bytes.Equal(a[i].val, b[i].val) || a[i].rev != b[i].rev {
			return false
		}
	}
	return true
}

// readAt performs a read through node n and returns what it answered, normalised
func (w *c18nWorld) readAt(n *c18nNode, api, op, key string) (kvs []c18nKV, count int64, err error) {
	ctx, cancel := c18nCtx()
	defer cancel()
	start, end := []byte(Prefix+"/"), backend.PrefixEnd([]byte(Prefix+"/"))
	switch api + ":" + op {
	case "brain:get":
		r, err := n.read.Get(ctx, &proto.GetRequest{Key: []byte(key)})
		if err != nil {
			return nil, 0, err
		}
		if r.Kv != nil {
			kvs = append(kvs, c18nKV{string(r.Kv.Key), r.Kv.Value, r.Kv.Revision})
		}
	case "etcd:get":
		r, err := n.kv.Range(ctx, &etcdserverpb.RangeRequest{Key: []byte(key)})
		if err != nil {
			return nil, 0, err
		}
		for _, kv := range r.Kvs {
			kvs = append(kvs, c18nKV{string(kv.Key), kv.Value, uint64(kv.ModRevision)})
		}
	case "brain:list":
		r, err := n.read.Range(ctx, &proto.RangeRequest{Key: start, End: end})
		if err != nil {
			return nil, 0, err
		}
		for _, kv := range r.Kvs {
			kvs = append(kvs, c18nKV{string(kv.Key), kv.Value, kv.Revision})
		}
	case "etcd:list":
		r, err := n.kv.Range(ctx, &etcdserverpb.RangeRequest{Key: start, RangeEnd: end})
		if err != nil {
			return nil, 0, err
		}
		for _, kv := range r.Kvs {
			kvs = append(kvs, c18nKV{string(kv.Key), kv.Value, uint64(kv.ModRevision)})
		}
	case "brain:count":
		r, err := n.read.Count(ctx, &proto.CountRequest{Key: start, End: end})
		if err != nil {
			return nil, 0, err
		}
		return nil, int64(r.Count), nil
	case "etcd:count":
		r, err := n.kv.Range(ctx, &etcdserverpb.RangeRequest{Key: start, RangeEnd: end, CountOnly: true})
		if err != nil {
			return nil, 0, err
		}
		return nil, r.Count, nil
	default: // stream (native API; the etcd flavour of the range stream is covered at handler level)
		st, err := n.read.RangeStream(ctx, &proto.RangeRequest{Key: shimCoder.EncodeObjectKey(start, 0), End: shimCoder.EncodeObjectKey(end, 0)})
		if err != nil {
			return nil, 0, err
		}
		for {
			r, err := st.Recv()
			if err == io.EOF {
				break
			}
			if err != nil {
				return nil, 0, err
			}
			if r.Err != "" {
				return nil, 0, fmt.Errorf("stream: %s", r.Err)
			}
			if r.RangeResponse != nil {
				for _, kv := range r.RangeResponse.Kvs {
					kvs = append(kvs, c18nKV{string(kv.Key), kv.Value, kv.Revision})
				}
			}
		}
		sort.Slice(kvs, func(i, j int) bool { return kvs[i].key < kvs[j].key })
	}
	return kvs, 0, nil
}

// checkRead judges a follower read against everything the leader has committed (nothing is in flight)
func (w *c18nWorld) checkRead(api, op, key string) (failed bool, err error) {
	kvs, count, rerr := w.readAt(w.follower, api, op, key)
	what := fmt.Sprintf("follower read %s:%s %q", api, op, key)
	if w.down {
		if rerr == nil {
			return false, fmt.Errorf("%s was answered (%s count=%d) although the leader cannot be reached", what, fmtC18nKVs(kvs), count)
		}
		return true, nil
	}
	if rerr != nil {
		return true, nil // failing is always allowed
	}
	switch op {
	case "get":
		var want []c18nKV
		if v, ok := w.model[key]; ok {
			want = []c18nKV{{key, v.val, v.rev}}
		}
		if !sameC18nKVs(kvs, want) {
			return false, fmt.Errorf("%s answered [%s], the leader had committed [%s] before the read began", what, fmtC18nKVs(kvs), fmtC18nKVs(want))
		}
	case "count":
		if count != int64(len(w.model)) {
			return false, fmt.Errorf("%s answered %d, the leader had committed a state with %d keys before the read began", what, count, len(w.model))
		}
	default:
		want := w.expectList()
		if !sameC18nKVs(kvs, want) {
			return false, fmt.Errorf("%s answered [%s], the leader had committed [%s] before the read began", what, fmtC18nKVs(kvs), fmtC18nKVs(want))
		}
	}
	return false, nil
}

// storeUnchanged reads the whole state at the leader and compares it with the model
func (w *c18nWorld) storeUnchanged(after string) error {
	kvs, _, err := w.readAt(w.leader, "brain", "list", "")
	if err != nil {
		return Inconclusivef("leader list: %v", err)
	}
	if want := w.expectList(); !sameC18nKVs(kvs, want) {
		return fmt.Errorf("after %s the store holds [%s]; the committed writes give [%s]", after, fmtC18nKVs(kvs), fmtC18nKVs(want))
	}
	return nil
}

func unavailable(err error) bool {
	return status.Code(err) == codes.Unavailable || strings.Contains(err.Error(), "navailable")
}

func runC18Nodes(ci interface{}, st *CaseStats) error {
	c := ci.(*c18nCase)
	t0 := time.Now()
	if js, jerr := json.Marshal(c); jerr == nil {
		// if this process dies, the driver attributes the death to this case
		_ = os.WriteFile(filepath.Join(outDir(), fmt.Sprintf("C18.%s.current.json", shardName())), js, 0o644)
	}
	// the store stays open until the process exits: the electors cannot be stopped and treat a lost lease as fatal
	eng, err := OpenEngine(EngMem)
	if err != nil {
		return Inconclusivef("engine: %v", err)
	}
	w := &c18nWorld{model: map[string]c18nVal{}, proxy: c.Proxy, keys: []string{FullKey("a"), FullKey("b"), FullKey("c/d"), FullKey("e")}}
	w.leader, err = startC18nNode(eng.KV, c.Proxy)
	if err != nil {
		return Inconclusivef("leader node: %v", err)
	}
	defer func() { w.leader.stop() }()
	// the first node wins the election at once (no record yet)
	deadline := time.Now().Add(15 * time.Second)
	for {
		code, _, err := w.leader.status()
		if err == nil && code == 200 {
			break
		}
		if time.Now().After(deadline) {
			return Inconclusivef("first node did not become leader: code %d err %v", code, err)
		}
		time.Sleep(2 * time.Millisecond)
	}
	if os.Getenv("VERIF_TIMING") != "" {
		fmt.Printf("leader up %v\n", time.Since(t0))
	}
	w.follower, err = startC18nNode(eng.KV, c.Proxy)
	if os.Getenv("VERIF_TIMING") != "" {
		fmt.Printf("follower started %v\n", time.Since(t0))
	}
	if err != nil {
		return Inconclusivef("follower node: %v", err)
	}
	defer func() { w.follower.stop() }()
	// warm-up: the follower learns the leader's address with its elector's first look at the lock
	deadline = time.Now().Add(10 * time.Second)
	for {
		if _, _, err := w.readAt(w.follower, "brain", "count", ""); err == nil {
			break
		}
		if time.Now().After(deadline) {
			return Inconclusivef("the follower never managed a read")
		}
		time.Sleep(2 * time.Millisecond)
	}
	if c.Proxy {
		// the proxy looks for the leader once a second
		deadline = time.Now().Add(8 * time.Second)
		for {
			ok, rev, err := w.write(w.follower, "etcd", "create", FullKey("warm"), []byte("w"))
			if err == nil && ok {
				w.apply("create", FullKey("warm"), []byte("w"), rev)
				break
			}
			if err == nil && !ok {
				return fmt.Errorf("a create of a fresh key forwarded by the follower was refused by the leader")
			}
			if time.Now().After(deadline) {
				return Inconclusivef("the follower's proxy never reached the leader: %v", err)
			}
			time.Sleep(50 * time.Millisecond)
		}
	}
	st.Labelf("proxy:%v", c.Proxy)
	if os.Getenv("VERIF_TIMING") != "" {
		fmt.Printf("setup %v\n", time.Since(t0))
		defer func(t1 time.Time) { fmt.Printf("steps %v\n", time.Since(t1)) }(time.Now())
	}
	readsOK, advancedBetween, forwarded, bursts := 0, false, false, 0
	lastWasWrite := false
	for si, s := range c.Steps {
		key := w.keys[s.K%len(w.keys)]
		w.seq++
		val := []byte(fmt.Sprintf("v%d", w.seq))
		switch s.Kind {
		case "lwrite":
			if w.down {
				continue
			}
			op := w.effectiveOp(s.Op, key)
			ok, rev, err := w.write(w.leader, s.API, op, key, val)
			if err != nil || !ok {
				return Inconclusivef("step %d: leader write %s:%s %q: ok=%v err=%v", si, s.API, op, key, ok, err)
			}
			w.apply(op, key, val, rev)
			lastWasWrite = true
		case "fread":
			failed, err := w.checkRead(s.API, s.Op, key)
			if err != nil {
				return fmt.Errorf("step %d: %v", si, err)
			}
			if failed && !w.down {
				st.Label("follower-read-failed-with-reachable-leader")
			}
			if !failed {
				readsOK++
				if lastWasWrite {
					advancedBetween = true
				}
			}
			if w.down {
				st.Label("follower-read-with-leader-down")
			}
			lastWasWrite = false
		case "fwrite":
			op := w.effectiveOp(s.Op, key)
			ok, rev, err := w.write(w.follower, s.API, op, key, val)
			what := fmt.Sprintf("step %d: write %s:%s %q sent to the follower (proxy=%v, leader down=%v): ok=%v rev=%d err=%v", si, s.API, op, key, c.Proxy, w.down, ok, rev, err)
			mayForward := c.Proxy && s.API == "etcd" && op != "compact"
			switch {
			case err == nil && mayForward && !w.down:
				if op == "compact" {
					break
				}
				if !ok {
					return fmt.Errorf("%s: forwarded write whose condition holds was refused", what)
				}
				w.apply(op, key, val, rev)
				forwarded = true
				st.Label("follower-write-forwarded")
			case err == nil && s.API == "etcd" && op == "compact":
				// the etcd Compact RPC is answered with a canned response on every node and compacts nothing
				// (compaction is driven through the native API); the store comparison below still applies
				st.Label("follower-etcd-compact-canned")
			case err == nil:
				return fmt.Errorf("%s: a node that is not leader answered a write itself", what)
			default:
				if !mayForward && !unavailable(err) {
					return fmt.Errorf("%s: rejected, but not as unavailable", what)
				}
				st.Label("follower-write-rejected")
			}
			if !w.down {
				if err := w.storeUnchanged(what); err != nil {
					return err
				}
			}
		case "fhostile":
			// a transaction of a shape kube-apiserver never sends, addressed to the follower: with the proxy on it is
			// forwarded (or refused) without the follower looking inside; it must be answered with an error by
			// somebody, change nothing, and both nodes must keep serving (a panic in a handler kills the process: the
			// driver attributes the death of this worker to the case in flight)
			variant := c16Unsupported[s.U%len(c16Unsupported)]
			if c16KnownExecuted[variant] {
				st.Count("redirected:unsupported-shape-executed:"+variant, 1)
				continue
			}
			other := w.keys[(s.K+1)%len(w.keys)]
			ctx, cancel := c18nCtx()
			resp, err := w.follower.kv.Txn(ctx, buildUnsupported(variant, []byte(key), []byte(other), val, int64(w.model[key].rev)))
			cancel()
			what := fmt.Sprintf("step %d: unsupported transaction %q sent to the follower (proxy=%v, leader down=%v)", si, variant, c.Proxy, w.down)
			if err == nil {
				return fmt.Errorf("%s was answered (succeeded=%v) instead of being refused", what, resp.GetSucceeded())
			}
			if !w.down {
				if err := w.storeUnchanged(what); err != nil {
					return err
				}
			}
			st.Label("follower-unsupported-txn-refused")
		case "fwatch":
			if err := w.followerWatch(si, s.API, c.Proxy, st); err != nil {
				return err
			}
		case "burst":
			if w.down {
				continue
			}
			if err := w.burst(si, key, s.N, st); err != nil {
				return err
			}
			bursts++
		case "status":
			if w.down {
				continue
			}
			code, rev, err := w.leader.status()
			if err != nil || code != 200 {
				return fmt.Errorf("step %d: the leader's /status answered code %d err %v", si, code, err)
			}
			if rev < w.maxAcked {
				return fmt.Errorf("step %d: the leader publishes revision %d although it has committed a write at revision %d", si, rev, w.maxAcked)
			}
			if cur := w.leader.b.GetCurrentRevision(); rev > cur {
				return fmt.Errorf("step %d: the leader publishes revision %d, above its committed revision %d", si, rev, cur)
			}
			code, rev, err = w.follower.status()
			if err == nil && code == 200 {
				return fmt.Errorf("step %d: a node that is not leader published a revision (%d) on /status", si, rev)
			}
			st.Label("status-checked")
		case "down":
			// the leader's ports close; its elector keeps the lock, so the follower still names it as leader
			w.leader.cancel()
			select {
			case <-w.leader.done:
			case <-time.After(5 * time.Second):
			}
			w.leader.done <- nil
			w.down = true
			st.Label("leader-down")
		}
	}
	if readsOK > 0 && (advancedBetween || forwarded || bursts > 0) {
		st.Nontrivial()
	}
	return nil
}

// followerWatch: a watch sent to the follower is refused, or (etcd API, proxy on) served by the leader
func (w *c18nWorld) followerWatch(si int, api string, proxy bool, st *CaseStats) error {
	ctx, cancel := context.WithTimeout(context.Background(), 15*time.Second)
	defer cancel()
	if api == "brain" {
		ws, err := w.follower.watch.Watch(ctx, &proto.WatchRequest{Key: []byte(Prefix + "/")})
		if err == nil {
			_, err = ws.Recv()
		}
		if err == nil {
			return fmt.Errorf("step %d: a native watch sent to the follower was served", si)
		}
		if err == io.EOF || status.Code(err) == codes.DeadlineExceeded {
			return fmt.Errorf("step %d: a native watch sent to the follower neither failed nor was refused: %v", si, err)
		}
		st.Label("follower-watch-rejected")
		return nil
	}
	ws, err := w.follower.ewatch.Watch(ctx)
	if err != nil {
		st.Label("follower-watch-rejected")
		return nil
	}
	start := int64(w.maxAcked + 1)
	if err := ws.Send(&etcdserverpb.WatchRequest{RequestUnion: &etcdserverpb.WatchRequest_CreateRequest{CreateRequest: &etcdserverpb.WatchCreateRequest{
		Key: []byte(Prefix + "/"), RangeEnd: backend.PrefixEnd([]byte(Prefix + "/")), StartRevision: start}}}); err != nil {
		st.Label("follower-watch-rejected")
		return nil
	}
	first, err := ws.Recv()
	if err != nil || first.Canceled {
		if proxy && !w.down {
			st.Label("follower-watch-forwarding-refused")
		}
		st.Label("follower-watch-rejected")
		return nil
	}
	if !proxy {
		// acknowledged: it must then be cancelled without events, never served from the follower's own history
		r, err := ws.Recv()
		if err == nil && !r.Canceled && len(r.Events) > 0 {
			return fmt.Errorf("step %d: an etcd watch sent to a follower without proxy delivered events", si)
		}
		if err == nil && !r.Canceled {
			return fmt.Errorf("step %d: an etcd watch sent to a follower without proxy was acknowledged and kept open", si)
		}
		st.Label("follower-watch-rejected")
		return nil
	}
	if w.down {
		return nil
	}
	// forwarded: an event written at the leader now must arrive
	key := FullKey("watched")
	w.seq++
	val := []byte(fmt.Sprintf("w%d", w.seq))
	op := w.effectiveOp("update", key)
	ok, rev, werr := w.write(w.leader, "brain", op, key, val)
	if werr != nil || !ok {
		return Inconclusivef("step %d: leader write for the forwarded watch: %v", si, werr)
	}
	w.apply(op, key, val, rev)
	for {
		r, err := ws.Recv()
		if err != nil {
			if status.Code(err) == codes.DeadlineExceeded {
				return fmt.Errorf("step %d: a watch forwarded to the leader never delivered the leader's write at revision %d", si, rev)
			}
			st.Label("forwarded-watch-ended")
			return nil
		}
		if r.Canceled {
			st.Label("forwarded-watch-cancelled")
			return nil
		}
		for _, e := range r.Events {
			if uint64(e.Kv.ModRevision) == rev {
				if string(e.Kv.Key) != key || !bytes.Equal(e.Kv.Value, val) {
					return fmt.Errorf("step %d: forwarded watch delivered %q=%q at revision %d, the leader wrote %q=%q", si, e.Kv.Key, e.Kv.Value, rev, key, val)
				}
				st.Label("follower-watch-forwarded")
				return nil
			}
		}
	}
}

// burst: the leader's revision advances while the follower answers reads of the same key, one at a time (overlapping
// follower reads share one revision fetch — recorded finding — and are excluded here)
func (w *c18nWorld) burst(si int, key string, n int, st *CaseStats) error {
	if _, live := w.model[key]; !live {
		ok, rev, err := w.write(w.leader, "brain", "create", key, []byte("b-1"))
		if err != nil || !ok {
			return Inconclusivef("step %d: burst create: %v", si, err)
		}
		w.apply("create", key, []byte("b-1"), rev)
	}
	var acked int64 = -1
	type wres struct {
		rev uint64
		err error
		n   int
	}
	done := make(chan wres, 1)
	startRev := w.model[key].rev
	go func() {
		rev := startRev
		for i := 0; i < n; i++ {
			ctx, cancel := c18nCtx()
			r, err := w.leader.write.Update(ctx, &proto.UpdateRequest{Kv: &proto.KeyValue{Key: []byte(key), Value: []byte("b" + strconv.Itoa(i)), Revision: rev}})
			cancel()
			if err != nil || !r.Succeeded {
				done <- wres{rev, fmt.Errorf("update %d: %v", i, err), i}
				return
			}
			rev = r.Header.GetRevision()
			WaitCommitted(w.leader.b, rev, 10*time.Second)
			atomic.StoreInt64(&acked, int64(i))
		}
		done <- wres{rev, nil, n}
	}()
	reads, fresh := 0, 0
	var res wres
	finished := false
	for !finished {
		select {
		case res = <-done:
			finished = true
		default:
		}
		before := atomic.LoadInt64(&acked)
		ctx, cancel := c18nCtx()
		r, err := w.follower.read.Get(ctx, &proto.GetRequest{Key: []byte(key)})
		cancel()
		if err != nil {
			continue
		}
		reads++
		idx := int64(-1)
		if r.Kv != nil && bytes.HasPrefix(r.Kv.Value, []byte("b")) {
			if v, perr := strconv.Atoi(string(r.Kv.Value[1:])); perr == nil {
				idx = int64(v)
			}
		}
		if idx < before {
			return fmt.Errorf("step %d: while the leader was writing %q, a follower read that began after update #%d had been committed answered the value of update #%d (%v)", si, key, before, idx, r.Kv)
		}
		if before >= 0 {
			fresh++
		}
	}
	if res.err != nil {
		return Inconclusivef("step %d: burst writer: %v", si, res.err)
	}
	w.apply("update", key, []byte("b"+strconv.Itoa(n-1)), res.rev)
	st.Count("burst_follower_reads", reads)
	if fresh > 0 {
		st.Label("follower-read-while-leader-advances")
	}
	return nil
}

var specC18Nodes = &Spec{
	ID:   "C18",
	Rule: "integrated mode: case = proxy {on, off} + 4..19 steps over two complete nodes (endpoint.Run: client and peer ports, gRPC and HTTP multiplexed, real election over one shared store, the leader's real /status handler, the follower's real revision syncer and etcd proxy) driven through gRPC clients: leader writes (both APIs), follower reads (get / list / count / range stream, both APIs), writes sent to the follower, watches sent to the follower, bursts of 3..25 leader updates running while the follower answers reads one at a time, /status probes of both nodes, and optionally the leader's ports closing followed by follower reads. Oracle: a follower read equals the state given by every write the leader had committed before the read began (value and modification revision; during a burst: at least the last committed update), or fails; with the leader unreachable it fails; a write or watch sent to the follower is refused as unavailable or (etcd API, proxy on) takes effect exactly once at the leader / delivers the leader's next event; after every write sent to the follower the store equals the committed history; the leader's /status is 200 with a revision >= every committed write and <= its committed revision, a non-leader's /status never answers 200. Non-trivial = some follower read was answered after the leader advanced (or a write was forwarded, or a burst ran); distinct = SHA-1 of the case",
	Gen:  genC18Nodes,
	New:  func() interface{} { return &c18nCase{} },
	Run:  runC18Nodes,
	Assumptions: []string{
		"both nodes run in one process over one in-memory store; a closed listener stands for an unreachable leader; the nodes' electors cannot be stopped, so stores stay open until the process exits and a shard runs a bounded number of cases",
		"follower reads are issued one at a time in this mode (overlapping follower reads share one revision fetch: recorded finding, probed at handler level)",
	},
	Engines: []string{EngMem + " shared by two nodes"},
}

func TestC18Nodes(t *testing.T) { RunProperty(t, specC18Nodes) }
