package props

// C11, wrapper mode: the metrics wrapper (pkg/storage/metrics) must be transparent — whatever the wrapped engine
// answers, including every kind of failure, reaches the caller unchanged and nothing else happens to the store.
// Differential: the same operation sequence with the same fault plan runs on shim(memkv) directly and on
// metrics(shim(memkv)); every answer and the final raw contents must agree.

import (
	"bytes"
	"context"
	"errors"
	"fmt"
	"io"
	"testing"

	"pgregory.net/rapid"

	imemkv "github.com/kubewharf/kubebrain/pkg/storage/memkv"
	imetrics "github.com/kubewharf/kubebrain/pkg/storage/metrics"

	"github.com/kubewharf/kubebrain/pkg/storage"
)

type c11wFault struct {
	Kind string `json:"at"`  // commit | del | iter | get | tso | next
	Idx  int    `json:"idx"` // index of the call of that kind (next: position inside any iterator)
	What int    `json:"what"`
}

type c11wCase struct {
	Keys   []string
	Steps  []c11Step
	Faults []c11wFault
}

func genC11Wrap(t *rapid.T) interface{} {
	base := genC11(t).(*c11Case)
	c := &c11wCase{Keys: base.Keys, Steps: base.Steps}
	// extra step kinds that only make sense here
	for i := 0; i < rapid.IntRange(0, 3).Draw(t, "ntso"); i++ {
		pos := DrawIntn(t, len(c.Steps)+1, "tsoPos")
		c.Steps = append(c.Steps[:pos], append([]c11Step{{Kind: rapid.SampledFrom([]string{"tso", "parts"}).Draw(t, "extra")}}, c.Steps[pos:]...)...)
	}
	nf := rapid.IntRange(1, 5).Draw(t, "nfaults")
	for i := 0; i < nf; i++ {
		f := c11wFault{Kind: rapid.SampledFrom([]string{"commit", "commit", "del", "del", "iter", "get", "tso", "next"}).Draw(t, "fkind"),
			Idx: rapid.IntRange(0, 6).Draw(t, "fidx")}
		switch f.Kind {
		case "commit", "del":
			f.What = int(rapid.SampledFrom([]Decision{FailNoApply, UncertainApplied, UncertainNotApplied, FailCAS}).Draw(t, "fwhat"))
		default:
			f.What = int(FailNoApply)
		}
		c.Faults = append(c.Faults, f)
	}
	return c
}

func errClass(err error) string {
	switch {
	case err == nil:
		return "ok"
	case err == io.EOF:
		return "eof"
	case err == ErrInjected:
		return "injected"
	case errors.Is(err, storage.ErrUncertainResult):
		return "uncertain"
	case errors.Is(err, storage.ErrCASFailed):
		return "condition-failed"
	case errors.Is(err, storage.ErrKeyNotFound):
		return "not-found"
	}
	return "other: " + err.Error()
}

// c11wStack is one engine stack with its own fault plan
type c11wStack struct {
	name  string
	shim  *Shim
	kv    storage.KvStorage
	iters [3]storage.Iter
	posOK [3]bool
}

func newC11wStack(name string, wrap bool, faults []c11wFault) *c11wStack {
	sh := NewShim(imemkv.NewKvStorage(), true)
	plan := map[string]Decision{}
	for _, f := range faults {
		plan[fmt.Sprintf("%s:%d", f.Kind, f.Idx)] = Decision(f.What)
	}
	sh.OnCommit = func(ci *CommitInfo) Decision { return plan[fmt.Sprintf("commit:%d", ci.Seq)] }
	sh.OnDelete = func(idx int, key []byte, current bool) Decision { return plan[fmt.Sprintf("del:%d", idx)] }
	sh.OnIter = func(idx int) Decision { return plan[fmt.Sprintf("iter:%d", idx)] }
	sh.OnGet = func(idx int, key []byte) Decision { return plan[fmt.Sprintf("get:%d", idx)] }
	sh.OnTSO = func(idx int) Decision { return plan[fmt.Sprintf("tso:%d", idx)] }
	sh.OnNext = func(iterIdx, pos int) Decision { return plan[fmt.Sprintf("next:%d", pos)] }
	st := &c11wStack{name: name, shim: sh, kv: sh}
	if wrap {
		st.kv = imetrics.NewKvStorage(sh, NopMetrics)
	}
	return st
}

func (s *c11wStack) close() {
	for _, it := range s.iters {
		if it != nil {
			_ = it.Close()
		}
	}
	_ = s.kv.Close()
}

// do executes one step and returns a transcript line
func (s *c11wStack) do(c *c11wCase, st c11Step, vseq *int) string {
	ctx := context.Background()
	fk := func(name string) []byte { return append(exactCap("c11/"), name...) }
	key := c.Keys[st.K%len(c.Keys)]
	switch st.Kind {
	case "get":
		v, err := s.kv.Get(ctx, fk(key))
		return fmt.Sprintf("get %q -> %q %s", key, v, errClass(err))
	case "del":
		return fmt.Sprintf("del %q -> %s", key, errClass(s.kv.Del(ctx, fk(key))))
	case "tso":
		_, err := s.kv.GetTimestampOracle(ctx)
		return "tso -> " + errClass(err)
	case "parts":
		ps, err := s.kv.GetPartitions(ctx, fk(""), fk("\xff"))
		return fmt.Sprintf("partitions -> %d %s", len(ps), errClass(err))
	case "iter":
		slot := st.It % 3
		if s.iters[slot] != nil {
			_ = s.iters[slot].Close()
			s.iters[slot], s.posOK[slot] = nil, false
		}
		a, b := []byte("c11/"+c11Bounds[st.Start%len(c11Bounds)]), []byte("c11/"+c11Bounds[st.End%len(c11Bounds)])
		it, err := s.kv.Iter(ctx, a, b, 0, uint64(st.Limit))
		if err == nil {
			s.iters[slot] = it
		}
		return fmt.Sprintf("iter%d [%q,%q) limit %d -> %s", slot, a, b, st.Limit, errClass(err))
	case "next":
		slot := st.It % 3
		it := s.iters[slot]
		if it == nil {
			return "next: no iterator"
		}
		out := fmt.Sprintf("next%d:", slot)
		for i := 0; i < st.N; i++ {
			err := it.Next(ctx)
			if err != nil {
				out += " " + errClass(err)
				s.posOK[slot] = false
				if err != io.EOF {
					// a failed iterator is not used again
					_ = it.Close()
					s.iters[slot] = nil
				}
				break
			}
			s.posOK[slot] = true
			out += fmt.Sprintf(" %q=%q", it.Key(), it.Val())
		}
		return out
	case "delcur":
		slot := st.It % 3
		if s.iters[slot] == nil || !s.posOK[slot] {
			return "delcur: iterator not positioned"
		}
		return fmt.Sprintf("delcur%d %q -> %s", slot, s.iters[slot].Key(), errClass(s.kv.DelCurrent(ctx, s.iters[slot])))
	case "batch":
		b := s.kv.BeginBatchWrite()
		desc := "batch"
		for _, op := range st.Ops {
			k := c.Keys[op.K%len(c.Keys)]
			*vseq++
			v := []byte(fmt.Sprintf("val-%d", *vseq))
			switch op.Kind {
			case "pine":
				b.PutIfNotExist(fk(k), v, 0)
			case "cas":
				old, _ := s.shim.Inner.Get(ctx, fk(k))
				if op.Old == "mismatch" || old == nil {
					old = []byte("not-the-value")
				}
				b.CAS(fk(k), v, old, 0)
			case "put":
				b.Put(fk(k), v, 0)
			case "del":
				b.Del(fk(k))
			case "delcur":
				slot := op.It % 3
				if s.iters[slot] != nil && s.posOK[slot] {
					b.DelCurrent(s.iters[slot])
					desc += fmt.Sprintf(" delcur%d", slot)
					continue
				}
				continue
			}
			desc += " " + op.Kind + ":" + k
		}
		return desc + " -> " + errClass(b.Commit(ctx))
	}
	return "?"
}

func runC11Wrap(ci interface{}, st *CaseStats) error {
	c := ci.(*c11wCase)
	plain := newC11wStack("engine", false, c.Faults)
	wrapped := newC11wStack("metrics(engine)", true, c.Faults)
	defer plain.close()
	defer wrapped.close()
	vp, vw := 0, 0
	failures := 0
	for si, s := range c.Steps {
		a := plain.do(c, s, &vp)
		b := wrapped.do(c, s, &vw)
		if a != b {
			return fmt.Errorf("step %d (%s): the engine answered\n   %s\nthrough the metrics wrapper the caller saw\n   %s", si, s.Kind, a, b)
		}
		for _, cls := range []string{"injected", "uncertain", "condition-failed"} {
			if bytes.Contains([]byte(a), []byte(cls)) {
				failures++
				st.Label("answer:" + cls)
			}
		}
	}
	da, err := c11Dump(plain.shim.Inner)
	if err != nil {
		return Inconclusivef("dump: %v", err)
	}
	db, err := c11Dump(wrapped.shim.Inner)
	if err != nil {
		return Inconclusivef("dump: %v", err)
	}
	if len(da) != len(db) {
		return fmt.Errorf("after the same %d steps the engine holds %d records directly and %d behind the metrics wrapper", len(c.Steps), len(da), len(db))
	}
	for k, v := range da {
		if w, ok := db[k]; !ok || !bytes.Equal(v, w) {
			return fmt.Errorf("after the same steps record %q is %q directly and %q (present=%v) behind the metrics wrapper", k, v, w, ok)
		}
	}
	if failures >= 2 {
		st.Nontrivial()
	}
	return nil
}

var specC11Wrap = &Spec{
	ID:   "C11",
	Rule: "wrapper mode: case = a C11 operation sequence (batches mixing put-if-absent / compare-and-swap / put / delete / delete-current, single get / delete / delete-current, iterators drained in pieces, timestamp and partition queries) + 1..5 injected engine failures (plain error, condition failure, unknown outcome applied / not applied on commits and deletes; plain error on get, iterator creation, an iterator's n-th step, the timestamp oracle). The same sequence and fault plan run on the engine directly and behind pkg/storage/metrics. Oracle (differential): every answer (value, error class: ok / eof / not-found / condition-failed / uncertain / injected) and the final raw contents are identical. Non-trivial = at least two operations were answered with a failure; distinct = SHA-1 of the case",
	Gen:  genC11Wrap,
	New:  func() interface{} { return &c11wCase{} },
	Run:  runC11Wrap,
	Assumptions: []string{
		"the wrapped engine is the in-memory engine behind the harness's fault-injecting shim; the failures are those the storage interface documents (error, ErrCASFailed, ErrUncertainResult)",
	},
	Engines: []string{"metrics(shim(memkv)) vs shim(memkv)"},
}

func TestC11Wrap(t *testing.T) { RunProperty(t, specC11Wrap) }
