package props

// C05 after a restart / leader change: a fresh backend over a store that already holds history has an empty event
// cache; a watch whose start revision lies at or below that history can not be served from it and must be refused —
// whatever the new node's current revision has been set to.

import (
	"context"
	"fmt"
	"testing"
	"time"

	"pgregory.net/rapid"

	proto "github.com/kubewharf/kubebrain-client/api/v2rpc"
)

type c05RestartCase struct {
	Old     int // successful writes of the first incarnation
	Ahead   int // the second incarnation's current revision = last old revision + Ahead
	StartAt int // watch start = second incarnation's current revision + StartAt (-2..+1)
	New     int // writes of the second incarnation after the watch has started
}

func genC05Restart(t *rapid.T) interface{} {
	return &c05RestartCase{Old: rapid.IntRange(1, 8).Draw(t, "old"), Ahead: rapid.SampledFrom([]int{0, 0, 0, 1, 7}).Draw(t, "ahead"),
		StartAt: rapid.IntRange(-2, 1).Draw(t, "startAt"), New: rapid.IntRange(1, 5).Draw(t, "new")}
}

func runC05Restart(ci interface{}, st *CaseStats) error {
	c := ci.(*c05RestartCase)
	keys := []string{FullKey("p/a"), FullKey("p/b")}
	env, err := NewSeqEnv(SeqOpts{Engine: EngMem, Keys: keys, Backend: BackendOpts{CacheSize: 256}})
	if err != nil {
		return Inconclusivef("engine: %v", err)
	}
	defer env.Close()
	ctx, cancel := context.WithCancel(context.Background())
	defer cancel()
	var revs []uint64
	write := func(i int) error {
		op := WOp{Kind: "update", K: i % 2, Exp: "ok"}
		if _, live := env.M.Live(keys[i%2]); !live {
			op = WOp{Kind: "create", K: i % 2}
		}
		res, err := env.DoWrite(op)
		if err != nil || res.Outcome != "ok" {
			return Inconclusivef("write %d: %v %v", i, res, err)
		}
		revs = append(revs, res.Rev)
		return nil
	}
	for i := 0; i < c.Old; i++ {
		if err := write(i); err != nil {
			return err
		}
	}
	if err := env.Settle(); err != nil {
		return err
	}
	last := revs[len(revs)-1]
	// the second incarnation: same store, empty cache
	StopBackend(env.B)
	cur := last + uint64(c.Ahead)
	env.B = NewTestBackend(env.KV, BackendOpts{CacheSize: 256, Init: cur, Identity: "node-restarted"})
	env.Init, env.LastRev = cur, cur
	start := uint64(int64(cur) + int64(c.StartAt))
	ch, werr := env.B.Watch(ctx, Prefix+"/p/", start)
	historyNeeded := start <= last // an event of the first incarnation has a revision >= start
	st.Labelf("start-vs-history:%v", map[bool]string{true: "inside", false: "above"}[historyNeeded])
	if werr != nil {
		st.Label("refused")
		if historyNeeded {
			st.Nontrivial()
		}
		return nil
	}
	for i := 0; i < c.New; i++ {
		if err := write(c.Old + i); err != nil {
			return err
		}
	}
	var want []uint64
	for _, r := range revs {
		if r >= start {
			want = append(want, r)
		}
	}
	got := 0
	deadline := time.After(15 * time.Second)
	for got < len(want) {
		select {
		case batch, ok := <-ch:
			if !ok {
				st.Label("closed")
				return nil // closing is allowed; what was delivered before is checked below as a prefix
			}
			for _, e := range batch {
				if got >= len(want) || e.Revision != want[got] {
					exp := uint64(0)
					if got < len(want) {
						exp = want[got]
					}
					return fmt.Errorf("a node restarted at revision %d over a store holding revisions up to %d accepted a watch from %d and delivered revision %d as event #%d; the %d-th change with revision >= %d has revision %d (the needed history is not in its cache: the watch has to be refused)", cur, last, start, e.Revision, got, got, start, exp)
				}
				got++
			}
		case <-deadline:
			return fmt.Errorf("a node restarted at revision %d accepted a watch from %d and delivered only %d of %d events within 15s", cur, start, got, len(want))
		}
	}
	st.Label("served")
	_ = proto.Event_PUT
	return nil
}

var specC05Restart = &Spec{
	ID:   "C05",
	Rule: "restart mode: case = 1..8 successful writes on a first backend, then a second backend over the same store (empty event cache) whose current revision is set to the last stored revision (or 1 / 7 above it), a watch starting 2 below .. 1 above that current revision, then 1..5 further writes. Oracle: the watch is refused, or closed, or delivers exactly the changes with revision >= its start (those of the first incarnation included) in order. Non-trivial = the start revision lies at or below a stored change and the watch was refused; distinct = SHA-1 of the case",
	Gen:  genC05Restart,
	New:  func() interface{} { return &c05RestartCase{} },
	Run:  runC05Restart,
	Assumptions: []string{
		"the second backend's current revision is set through SetCurrentRevision, as the election and the follower sync do; the election itself always chooses a revision above everything stored (C15), so the state 'current revision = revision of a stored change' is constructed here, not observed in a fail-over",
	},
	Engines: []string{EngMem},
}

func TestC05Restart(t *testing.T) { RunProperty(t, specC05Restart) }
