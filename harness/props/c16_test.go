package props

import (
	"bytes"
	"context"
	"fmt"
	"testing"
	"time"

	"go.etcd.io/etcd/api/v3/etcdserverpb"
	"go.etcd.io/etcd/api/v3/mvccpb"
	"pgregory.net/rapid"

	"github.com/kubewharf/kubebrain/pkg/backend"
	"github.com/kubewharf/kubebrain/pkg/server/etcd"
)

// C16 — the etcd-facing API answers Kubernetes' requests as etcd would

type c16Step struct {
	Kind string `json:"s"` // create | update | delete | udelete | range | unsupported
	K    int    `json:"key,omitempty"`
	V    int    `json:"val,omitempty"`
	Exp  string `json:"exp,omitempty"` // ok | stale | zero | other
	// range
	Point   bool `json:"point,omitempty"`
	Start   int  `json:"start,omitempty"`
	End     int  `json:"end,omitempty"`
	Limit   int  `json:"limit,omitempty"`
	RevSel  int  `json:"revsel,omitempty"`
	CountOn bool `json:"count_only,omitempty"`
	// After / Until: the lower / upper bound is pool key K / K2 followed by a zero byte — "immediately after that key":
	// the start of the next page of a paginated list, the end of a range that covers exactly one key
	After bool `json:"after,omitempty"`
	Until bool `json:"until,omitempty"`
	K2    int  `json:"key2,omitempty"`
	// unsupported shape variant
	U int `json:"u,omitempty"`
}

type c16Case struct {
	Keys  []string
	Steps []c16Step
}

var c16Unsupported = []string{
	"two-compares", "compare-target-version", "compare-target-create", "compare-target-value", "compare-result-not-equal",
	"compare-result-greater", "success-two-puts", "success-nested-txn", "create-put-prevkv", "create-put-ignore-value",
	"create-put-ignore-lease", "update-put-prevkv", "update-put-ignore-value", "update-put-ignore-lease",
	"create-compare-key-differs", "update-compare-key-differs", "delete-compare-key-differs", "delete-range-end",
	"delete-prevkv", "empty-txn", "failure-put", "update-failure-range-key-differs", "success-range-only", "compare-range-end",
	"no-compare-put", "no-compare-delete", "no-compare-get", "failure-branch-only",
}

func genC16(t *rapid.T) interface{} {
	c := &c16Case{}
	c.Keys = genKeyPool(t, 2, 6)
	nb := len(boundPool(c.Keys))
	n := rapid.IntRange(5, 40).Draw(t, "nsteps")
	for i := 0; i < n; i++ {
		k := rapid.IntRange(0, 11).Draw(t, "kind")
		s := c16Step{K: DrawIntn(t, len(c.Keys), "key"), V: rapid.IntRange(0, 7).Draw(t, "val")}
		switch {
		case i < 2 || k < 2:
			s.Kind = "create"
		case k < 5:
			s.Kind = "update"
			s.Exp = rapid.SampledFrom([]string{"ok", "ok", "ok", "stale", "zero", "other"}).Draw(t, "exp")
		case k < 7:
			s.Kind = "delete"
			s.Exp = rapid.SampledFrom([]string{"ok", "ok", "ok", "ok", "stale", "stale", "other", "other", "zero"}).Draw(t, "exp")
		case k < 8:
			s.Kind = "udelete"
		case k < 10:
			s.Kind = "range"
			s.Point = DrawBool(t, 30, "point")
			s.Start, s.End = DrawIntn(t, nb, "start"), DrawIntn(t, nb, "end")
			s.Limit = rapid.SampledFrom([]int{0, 1, 1, 1, 2, 2, 3}).Draw(t, "limit")
			if DrawBool(t, 50, "wholePrefix") {
				s.Start, s.End = 0, nb-1
			}
			s.RevSel = rapid.IntRange(-3, 30).Draw(t, "revsel")
			s.CountOn = DrawBool(t, 15, "countonly")
			if !s.Point {
				s.After = DrawBool(t, 30, "afterKey")
				s.Until = DrawBool(t, 15, "untilKey")
				s.K2 = DrawIntn(t, len(c.Keys), "key2")
			}
		default:
			s.Kind = "unsupported"
			s.U = DrawIntn(t, len(c16Unsupported), "u")
		}
		c.Steps = append(c.Steps, s)
	}
	return c
}

func cmpMod(key []byte, rev int64) *etcdserverpb.Compare {
	return &etcdserverpb.Compare{Result: etcdserverpb.Compare_EQUAL, Target: etcdserverpb.Compare_MOD, Key: key,
		TargetUnion: &etcdserverpb.Compare_ModRevision{ModRevision: rev}}
}

func opPut(key, val []byte) *etcdserverpb.RequestOp {
	return &etcdserverpb.RequestOp{Request: &etcdserverpb.RequestOp_RequestPut{RequestPut: &etcdserverpb.PutRequest{Key: key, Value: val}}}
}

func opGet(key []byte) *etcdserverpb.RequestOp {
	return &etcdserverpb.RequestOp{Request: &etcdserverpb.RequestOp_RequestRange{RequestRange: &etcdserverpb.RangeRequest{Key: key}}}
}

func opDel(key []byte) *etcdserverpb.RequestOp {
	return &etcdserverpb.RequestOp{Request: &etcdserverpb.RequestOp_RequestDeleteRange{RequestDeleteRange: &etcdserverpb.DeleteRangeRequest{Key: key}}}
}

// the four shapes, built the way the apiserver's etcd3 store builds them
func txnCreate(key, val []byte) *etcdserverpb.TxnRequest {
	return &etcdserverpb.TxnRequest{Compare: []*etcdserverpb.Compare{cmpMod(key, 0)}, Success: []*etcdserverpb.RequestOp{opPut(key, val)}}
}

func txnUpdate(key, val []byte, rev int64) *etcdserverpb.TxnRequest {
	return &etcdserverpb.TxnRequest{Compare: []*etcdserverpb.Compare{cmpMod(key, rev)}, Success: []*etcdserverpb.RequestOp{opPut(key, val)}, Failure: []*etcdserverpb.RequestOp{opGet(key)}}
}

func txnDelete(key []byte, rev int64) *etcdserverpb.TxnRequest {
	return &etcdserverpb.TxnRequest{Compare: []*etcdserverpb.Compare{cmpMod(key, rev)}, Success: []*etcdserverpb.RequestOp{opDel(key)}, Failure: []*etcdserverpb.RequestOp{opGet(key)}}
}

func txnUnguardedDelete(key []byte) *etcdserverpb.TxnRequest {
	return &etcdserverpb.TxnRequest{Success: []*etcdserverpb.RequestOp{opGet(key), opDel(key)}}
}

func buildUnsupported(variant string, key, other, val []byte, rev int64) *etcdserverpb.TxnRequest {
	switch variant {
	case "two-compares":
		t := txnUpdate(key, val, rev)
		t.Compare = append(t.Compare, cmpMod(other, 0))
		return t
	case "compare-target-version":
		t := txnUpdate(key, val, rev)
		t.Compare[0].Target = etcdserverpb.Compare_VERSION
		t.Compare[0].TargetUnion = &etcdserverpb.Compare_Version{Version: 1}
		return t
	case "compare-target-create":
		t := txnUpdate(key, val, rev)
		t.Compare[0].Target = etcdserverpb.Compare_CREATE
		t.Compare[0].TargetUnion = &etcdserverpb.Compare_CreateRevision{CreateRevision: rev}
		return t
	case "compare-target-value":
		t := txnUpdate(key, val, rev)
		t.Compare[0].Target = etcdserverpb.Compare_VALUE
		t.Compare[0].TargetUnion = &etcdserverpb.Compare_Value{Value: val}
		return t
	case "compare-result-not-equal":
		t := txnUpdate(key, val, rev)
		t.Compare[0].Result = etcdserverpb.Compare_NOT_EQUAL
		return t
	case "compare-result-greater":
		t := txnDelete(key, rev)
		t.Compare[0].Result = etcdserverpb.Compare_GREATER
		return t
	case "success-two-puts":
		t := txnUpdate(key, val, rev)
		t.Success = append(t.Success, opPut(other, val))
		return t
	case "success-nested-txn":
		t := txnUpdate(key, val, rev)
		t.Success = []*etcdserverpb.RequestOp{{Request: &etcdserverpb.RequestOp_RequestTxn{RequestTxn: txnCreate(key, val)}}}
		return t
	case "create-put-prevkv":
		t := txnCreate(key, val)
		t.Success[0].GetRequestPut().PrevKv = true
		return t
	case "create-put-ignore-value":
		t := txnCreate(key, val)
		t.Success[0].GetRequestPut().IgnoreValue = true
		return t
	case "create-put-ignore-lease":
		t := txnCreate(key, val)
		t.Success[0].GetRequestPut().IgnoreLease = true
		return t
	case "update-put-prevkv":
		t := txnUpdate(key, val, rev)
		t.Success[0].GetRequestPut().PrevKv = true
		return t
	case "update-put-ignore-value":
		t := txnUpdate(key, val, rev)
		t.Success[0].GetRequestPut().IgnoreValue = true
		return t
	case "update-put-ignore-lease":
		t := txnUpdate(key, val, rev)
		t.Success[0].GetRequestPut().IgnoreLease = true
		return t
	case "create-compare-key-differs":
		t := txnCreate(key, val)
		t.Compare[0].Key = other
		return t
	case "update-compare-key-differs":
		t := txnUpdate(key, val, rev)
		t.Compare[0].Key = other
		t.Failure = []*etcdserverpb.RequestOp{opGet(other)}
		return t
	case "delete-compare-key-differs":
		t := txnDelete(key, rev)
		t.Compare[0].Key = other
		return t
	case "delete-range-end":
		t := txnDelete(key, rev)
		t.Success[0].GetRequestDeleteRange().RangeEnd = backend.PrefixEnd(key)
		return t
	case "delete-prevkv":
		t := txnDelete(key, rev)
		t.Success[0].GetRequestDeleteRange().PrevKv = true
		return t
	case "empty-txn":
		return &etcdserverpb.TxnRequest{}
	case "failure-put":
		t := txnUpdate(key, val, rev)
		t.Failure = []*etcdserverpb.RequestOp{opPut(key, val)}
		return t
	case "update-failure-range-key-differs":
		t := txnUpdate(key, val, rev)
		t.Failure = []*etcdserverpb.RequestOp{opGet(other)}
		return t
	case "success-range-only":
		return &etcdserverpb.TxnRequest{Compare: []*etcdserverpb.Compare{cmpMod(key, rev)}, Success: []*etcdserverpb.RequestOp{opGet(key)}, Failure: []*etcdserverpb.RequestOp{opGet(key)}}
	case "compare-range-end":
		t := txnUpdate(key, val, rev)
		t.Compare[0].RangeEnd = backend.PrefixEnd(key)
		return t
	case "no-compare-put":
		return &etcdserverpb.TxnRequest{Success: []*etcdserverpb.RequestOp{opPut(key, val)}}
	case "no-compare-delete":
		return &etcdserverpb.TxnRequest{Success: []*etcdserverpb.RequestOp{opDel(key)}}
	case "no-compare-get":
		return &etcdserverpb.TxnRequest{Success: []*etcdserverpb.RequestOp{opGet(key)}}
	case "failure-branch-only":
		return &etcdserverpb.TxnRequest{Failure: []*etcdserverpb.RequestOp{opPut(key, val)}}
	}
	return &etcdserverpb.TxnRequest{}
}

func etcdKV(kv *mvccpb.KeyValue) string {
	if kv == nil {
		return "nil"
	}
	return fmt.Sprintf("{%q %q mod=%d}", kv.Key, trunc(kv.Value), kv.ModRevision)
}

type c16Env struct {
	env  *SeqEnv
	srv  *etcd.RPCServer
	ctx  context.Context
	last int64
}

func (e *c16Env) exp(class, key string) int64 {
	op := WOp{Exp: class}
	r, _ := e.env.ResolveExp(op, key)
	return int64(r)
}

// failure branch: the range response must carry the current kv (or nothing)
func (e *c16Env) checkFailureBranch(resp *etcdserverpb.TxnResponse, key string, what string) error {
	live, isLive := e.env.M.Live(key)
	if len(resp.Responses) != 1 || resp.Responses[0].GetResponseRange() == nil {
		return fmt.Errorf("%s: failure branch must answer the Get with one range response, got %d responses", what, len(resp.Responses))
	}
	kvs := resp.Responses[0].GetResponseRange().Kvs
	if !isLive {
		if len(kvs) != 0 {
			return fmt.Errorf("%s: failure branch returns %s for an absent key", what, etcdKV(kvs[0]))
		}
		return nil
	}
	if len(kvs) != 1 || string(kvs[0].Key) != key || !bytes.Equal(kvs[0].Value, live.Val) || kvs[0].ModRevision != int64(live.Rev) {
		got := "nothing"
		if len(kvs) > 0 {
			got = etcdKV(kvs[0])
		}
		return fmt.Errorf("%s: failure branch returns %s, the current kv is {%q mod=%d}", what, got, trunc(live.Val), live.Rev)
	}
	if resp.Header == nil || resp.Header.Revision < kvs[0].ModRevision {
		return fmt.Errorf("%s: header revision %v below the returned kv's mod revision %d", what, resp.Header, kvs[0].ModRevision)
	}
	return nil
}

func (e *c16Env) okRevision(resp *etcdserverpb.TxnResponse, what string) (uint64, error) {
	if resp.Header == nil || resp.Header.Revision <= e.last {
		return 0, fmt.Errorf("%s: succeeded with header revision %v, not greater than an earlier revision %d", what, resp.Header, e.last)
	}
	e.last = resp.Header.Revision
	e.env.LastRev = uint64(e.last)
	return uint64(resp.Header.Revision), nil
}

func (e *c16Env) bump(resp *etcdserverpb.TxnResponse) {
	if resp != nil && resp.Header != nil && resp.Header.Revision > e.last {
		e.last = resp.Header.Revision
	}
	e.env.LastRev = uint64(e.last)
}

func runC16(ci interface{}, st *CaseStats) error {
	c := ci.(*c16Case)
	keys := make([]string, len(c.Keys))
	for i, k := range c.Keys {
		keys[i] = FullKey(k)
	}
	env, err := NewSeqEnv(SeqOpts{Engine: EngMem, Keys: keys, Backend: BackendOpts{Etcd: true, CacheSize: 4096}})
	if err != nil {
		return Inconclusivef("engine: %v", err)
	}
	defer env.Close()
	peers := &ScriptedPeers{Leader: true, LeaderID: "self"}
	e := &c16Env{env: env, srv: etcd.New(env.B, NopMetrics, peers), ctx: context.Background(), last: int64(env.Init)}
	bounds := boundPool(c.Keys)
	// prefix watch over the whole history
	ws := NewFakeEtcdWatchStream()
	watchDone := make(chan error, 1)
	go func() { watchDone <- e.srv.Watch(ws) }()
	defer ws.Close()
	ws.In <- &etcdserverpb.WatchRequest{RequestUnion: &etcdserverpb.WatchRequest_CreateRequest{CreateRequest: &etcdserverpb.WatchCreateRequest{
		Key: []byte(Prefix + "/"), RangeEnd: backend.PrefixEnd([]byte(Prefix + "/")), StartRevision: int64(env.Init) + 1, PrevKv: true}}}
	created := ws.Next(5 * time.Second)
	if created == nil || !created.Created {
		return fmt.Errorf("watch create was not acknowledged: %v", created)
	}
	// the handler acknowledges the watch before it registers it with the backend: give that goroutine a moment,
	// otherwise the first write can race with the registration and the backend (legitimately) refuses the watch
	time.Sleep(300 * time.Microsecond)
	failedGuardedOnExisting, limitedMore := false, false
	attempt := 0
	for si, s := range c.Steps {
		key := keys[s.K%len(keys)]
		attempt++
		val := MakeValue(s.V, attempt)
		live, isLive := env.M.Live(key)
		switch s.Kind {
		case "create":
			resp, err := e.srv.Txn(e.ctx, txnCreate([]byte(key), val))
			what := fmt.Sprintf("step %d create(%q)", si, key)
			if err != nil {
				return fmt.Errorf("%s returned error %v", what, err)
			}
			if resp.Succeeded != !isLive {
				return fmt.Errorf("%s: succeeded=%v, etcd semantics say %v (key exists=%v)", what, resp.Succeeded, !isLive, isLive)
			}
			if resp.Succeeded {
				rev, err := e.okRevision(resp, what)
				if err != nil {
					return err
				}
				env.M.ApplyPut(key, val, rev, true)
			} else {
				e.bump(resp)
			}
		case "update":
			rev := e.exp(s.Exp, key)
			resp, err := e.srv.Txn(e.ctx, txnUpdate([]byte(key), val, rev))
			what := fmt.Sprintf("step %d update(%q, mod==%d[%s])", si, key, rev, s.Exp)
			if err != nil {
				return fmt.Errorf("%s returned error %v", what, err)
			}
			want := (rev == 0 && !isLive) || (rev != 0 && isLive && int64(live.Rev) == rev)
			if resp.Succeeded != want {
				return fmt.Errorf("%s: succeeded=%v, etcd semantics say %v (exists=%v mod=%d)", what, resp.Succeeded, want, isLive, live.Rev)
			}
			if resp.Succeeded {
				r, err := e.okRevision(resp, what)
				if err != nil {
					return err
				}
				env.M.ApplyPut(key, val, r, rev == 0)
			} else {
				e.bump(resp)
				if err := e.checkFailureBranch(resp, key, what); err != nil {
					return err
				}
				if isLive {
					failedGuardedOnExisting = true
				}
			}
		case "delete":
			rev := e.exp(s.Exp, key)
			if rev == 0 {
				// known finding: a guarded delete naming revision 0 is executed as an unconditional delete
				st.Count("redirected:guarded-delete-rev0", 1)
				continue
			}
			resp, err := e.srv.Txn(e.ctx, txnDelete([]byte(key), rev))
			what := fmt.Sprintf("step %d delete(%q, mod==%d[%s])", si, key, rev, s.Exp)
			if err != nil {
				return fmt.Errorf("%s returned error %v", what, err)
			}
			want := isLive && int64(live.Rev) == rev
			if resp.Succeeded != want {
				return fmt.Errorf("%s: succeeded=%v, etcd semantics say %v (exists=%v mod=%d)", what, resp.Succeeded, want, isLive, live.Rev)
			}
			if resp.Succeeded {
				r, err := e.okRevision(resp, what)
				if err != nil {
					return err
				}
				env.M.ApplyDelete(key, r)
			} else {
				e.bump(resp)
				if err := e.checkFailureBranch(resp, key, what); err != nil {
					return err
				}
				if isLive {
					failedGuardedOnExisting = true
				}
			}
		case "udelete":
			if !isLive {
				// known finding: an unguarded delete of a missing key reports succeeded=false (etcd: true)
				st.Count("redirected:unguarded-delete-missing-key", 1)
				continue
			}
			resp, err := e.srv.Txn(e.ctx, txnUnguardedDelete([]byte(key)))
			what := fmt.Sprintf("step %d unguarded delete(%q)", si, key)
			if err != nil {
				return fmt.Errorf("%s returned error %v", what, err)
			}
			if !resp.Succeeded {
				return fmt.Errorf("%s: succeeded=false, a transaction without compares always succeeds", what)
			}
			if len(resp.Responses) < 1 || resp.Responses[0].GetResponseRange() == nil {
				return fmt.Errorf("%s: first response must answer the Get", what)
			}
			kvs := resp.Responses[0].GetResponseRange().Kvs
			if len(kvs) != 1 || !bytes.Equal(kvs[0].Value, live.Val) || kvs[0].ModRevision != int64(live.Rev) {
				return fmt.Errorf("%s: the Get before the delete returned %d kvs, want the current kv {%q mod=%d}", what, len(kvs), trunc(live.Val), live.Rev)
			}
			r, err := e.okRevision(resp, what)
			if err != nil {
				return err
			}
			env.M.ApplyDelete(key, r)
		case "range":
			if err := env.Settle(); err != nil {
				return err
			}
			cur := env.B.GetCurrentRevision()
			var rev uint64
			if s.RevSel >= 0 && cur > env.Init {
				rev = env.Init + 1 + uint64(s.RevSel)%(cur-env.Init)
			}
			use := rev
			if use == 0 {
				use = cur
			}
			if s.Point {
				resp, err := e.srv.Range(e.ctx, &etcdserverpb.RangeRequest{Key: []byte(key), Revision: int64(rev)})
				what := fmt.Sprintf("step %d range point(%q, rev=%d)", si, key, rev)
				if err != nil {
					return fmt.Errorf("%s returned error %v", what, err)
				}
				v, ok := env.M.At(key, use)
				if rev == 0 {
					v, ok = env.M.Live(key)
				}
				if !ok {
					if len(resp.Kvs) != 0 || resp.Count != 0 || resp.More {
						return fmt.Errorf("%s: got %d kvs count=%d more=%v for an absent key", what, len(resp.Kvs), resp.Count, resp.More)
					}
				} else if len(resp.Kvs) != 1 || !bytes.Equal(resp.Kvs[0].Value, v.Val) || resp.Kvs[0].ModRevision != int64(v.Rev) || resp.Count != 1 || resp.More {
					return fmt.Errorf("%s: got %d kvs count=%d more=%v, want {%q mod=%d} count=1", what, len(resp.Kvs), resp.Count, resp.More, trunc(v.Val), v.Rev)
				}
				continue
			}
			a, b := bounds[s.Start%len(bounds)], bounds[s.End%len(bounds)]
			if s.After {
				a = append([]byte(key), 0)
				st.Label("range-starts-immediately-after-a-key")
			}
			if s.Until {
				b = append([]byte(keys[s.K2%len(keys)]), 0)
				st.Label("range-ends-immediately-after-a-key")
			}
			if bytes.Compare(a, b) > 0 {
				a, b = b, a
			}
			if bytes.Equal(a, b) || bytes.Equal(b, []byte{0}) || bytes.Equal(a, []byte{0}) {
				continue
			}
			if s.CountOn {
				resp, err := e.srv.Range(e.ctx, &etcdserverpb.RangeRequest{Key: a, RangeEnd: b, CountOnly: true})
				what := fmt.Sprintf("step %d count([%q,%q))", si, a, b)
				if err != nil {
					return fmt.Errorf("%s returned error %v", what, err)
				}
				all, _ := env.M.Range(a, b, cur, 0)
				if resp.Count != int64(len(all)) || len(resp.Kvs) != 0 {
					return fmt.Errorf("%s: count=%d kvs=%d, want count=%d and no kvs", what, resp.Count, len(resp.Kvs), len(all))
				}
				continue
			}
			resp, err := e.srv.Range(e.ctx, &etcdserverpb.RangeRequest{Key: a, RangeEnd: b, Limit: int64(s.Limit), Revision: int64(rev)})
			what := fmt.Sprintf("step %d range([%q,%q), limit=%d, rev=%d)", si, a, b, s.Limit, rev)
			if err != nil {
				return fmt.Errorf("%s returned error %v", what, err)
			}
			all, _ := env.M.Range(a, b, use, 0)
			want, more := env.M.Range(a, b, use, s.Limit)
			if len(resp.Kvs) != len(want) {
				return fmt.Errorf("%s: %d kvs, etcd semantics give %d", what, len(resp.Kvs), len(want))
			}
			for i, kv := range resp.Kvs {
				if string(kv.Key) != want[i].Key || !bytes.Equal(kv.Value, want[i].Val) || kv.ModRevision != int64(want[i].Rev) {
					return fmt.Errorf("%s: kv[%d] is %s, want {%q %q mod=%d} (result order is ascending by key)", what, i, etcdKV(kv), want[i].Key, trunc(want[i].Val), want[i].Rev)
				}
				if resp.Header.Revision < kv.ModRevision {
					return fmt.Errorf("%s: header revision %d below kv mod revision %d", what, resp.Header.Revision, kv.ModRevision)
				}
			}
			if resp.More != more {
				return fmt.Errorf("%s: more=%v, want %v (%d keys in range)", what, resp.More, more, len(all))
			}
			if more && len(all) > s.Limit+1 {
				// known finding: count of a limited range is len+1, not the number of keys in range
				st.Count("redirected:count-of-limited-range", 1)
			} else if resp.Count != int64(len(all)) {
				return fmt.Errorf("%s: count=%d, the range holds %d keys", what, resp.Count, len(all))
			}
			if more {
				limitedMore = true
			}
		case "unsupported":
			variant := c16Unsupported[s.U%len(c16Unsupported)]
			other := keys[(s.K+1)%len(keys)]
			rev := e.exp("ok", key)
			if variant == "create-compare-key-differs" {
				rev = 0
			}
			if known := c16KnownExecuted[variant]; known {
				st.Count("redirected:unsupported-shape-executed:"+variant, 1)
				continue
			}
			before, _ := env.M.Range([]byte("/"), []byte("0"), ^uint64(0), 0)
			resp, err := e.srv.Txn(e.ctx, buildUnsupported(variant, []byte(key), []byte(other), val, rev))
			what := fmt.Sprintf("step %d unsupported shape %q on %q", si, variant, key)
			if err == nil {
				return fmt.Errorf("%s was not rejected: succeeded=%v (it must return an error and never be executed as another shape)", what, resp.GetSucceeded())
			}
			if err := env.Settle(); err != nil {
				return err
			}
			if _, lerr := env.CheckList([]byte("/"), []byte("0"), 0, 0); lerr != nil {
				return fmt.Errorf("%s was rejected but changed the store: %v (before: %s)", what, lerr, fmtMKVs(before))
			}
			st.Label("unsupported:" + variant)
		}
	}
	// watch: events up to a fence
	fk := Prefix + "/~fence"
	fresp, err := e.srv.Txn(e.ctx, txnCreate([]byte(fk), []byte("f")))
	if err != nil || !fresp.Succeeded {
		return fmt.Errorf("fence create: %v", err)
	}
	want := env.M.EventsFrom(env.Init+1, Prefix+"/")
	got := 0
	deadline := time.After(20 * time.Second)
	for done := false; !done; {
		select {
		case r := <-ws.Out:
			if r.Canceled {
				if got == 0 {
					// refused at registration (the statement allows refusal): nothing to compare
					st.Label("watch:refused-at-registration")
					done = true
					got = len(want)
					break
				}
				return fmt.Errorf("watch was cancelled after %d of %d events: %s", got, len(want), r.CancelReason)
			}
			if len(r.Events) == 0 {
				continue
			}
			lastEv := r.Events[len(r.Events)-1]
			if r.Header == nil || r.Header.Revision != lastEv.Kv.ModRevision {
				return fmt.Errorf("watch response header revision %v, its last event has revision %d", r.Header, lastEv.Kv.ModRevision)
			}
			for _, ev := range r.Events {
				if string(ev.Kv.Key) == fk {
					done = true
					break
				}
				if got >= len(want) {
					return fmt.Errorf("watch delivered an extra event %v %q @%d", ev.Type, ev.Kv.Key, ev.Kv.ModRevision)
				}
				w := want[got]
				got++
				if string(ev.Kv.Key) != w.Key || ev.Kv.ModRevision != int64(w.Rev) {
					return fmt.Errorf("watch event %d is %v %q @%d, want %s %q @%d", got-1, ev.Type, ev.Kv.Key, ev.Kv.ModRevision, w.Type, w.Key, w.Rev)
				}
				if w.Type == "DELETE" {
					if ev.Type != mvccpb.DELETE {
						return fmt.Errorf("watch event %d for the delete of %q @%d has type %v", got-1, w.Key, w.Rev, ev.Type)
					}
					if ev.PrevKv == nil || !bytes.Equal(ev.PrevKv.Value, w.Val) || ev.PrevKv.ModRevision != int64(w.PrevRev) || string(ev.PrevKv.Key) != w.Key {
						return fmt.Errorf("DELETE event of %q @%d carries previous kv %s, want {%q mod=%d}", w.Key, w.Rev, etcdKV(ev.PrevKv), trunc(w.Val), w.PrevRev)
					}
				} else {
					if ev.Type != mvccpb.PUT || !bytes.Equal(ev.Kv.Value, w.Val) {
						return fmt.Errorf("watch event %d for the write of %q @%d is %v %s", got-1, w.Key, w.Rev, ev.Type, etcdKV(ev.Kv))
					}
				}
			}
		case <-deadline:
			return fmt.Errorf("watch delivered %d of %d events, the fence never arrived", got, len(want))
		}
	}
	if got != len(want) {
		return fmt.Errorf("watch delivered %d events, %d changes happened", got, len(want))
	}
	if failedGuardedOnExisting && limitedMore {
		st.Nontrivial()
	}
	return nil
}

// shapes that are known to be executed instead of rejected (recorded findings); filled from known_findings.json keys
var c16KnownExecuted = map[string]bool{}

var specC16 = &Spec{
	ID:   "C16",
	Rule: "case = 2..6 prefix-related keys, 5..40 steps against etcd.RPCServer (real BackendShim + backend, leader): the four Kubernetes transaction shapes built as the apiserver's etcd3 store builds them (create-if-absent, guarded update, guarded delete, unguarded get+delete) with correct / stale / zero / foreign expected revisions on existing, missing and deleted keys; point, prefix, limited, historic and count-only Range; 24 structurally valid unsupported transaction shapes; one prefix watch (PrevKv) over the whole history via a fake Watch stream. Oracle = etcd semantics evaluated on a reference store (Succeeded flag, current kv in the failure branch, mod revision = header revision of the writing transaction, ascending order, Count, More, watch PUT/DELETE with previous kv, response header = last event revision); an unsupported shape must return an error and leave the store unchanged (checked by a full read). Non-trivial = a failing guarded op on an existing key and a limited range with more keys than the limit; distinct = SHA-1 of the case",
	Gen:  genC16,
	New:  func() interface{} { return &c16Case{} },
	Run:  runC16,
	Assumptions: []string{
		"numeric revisions are compared relationally (KubeBrain consumes revisions on failed requests, etcd does not)",
		"recorded findings are excluded from generation and counted (redirected:*)",
	},
	Engines: []string{EngMem},
}

func TestC16(t *testing.T) { RunProperty(t, specC16) }

func c16ProbeEnv() (*SeqEnv, *etcd.RPCServer, error) {
	env, err := NewSeqEnv(SeqOpts{Engine: EngMem, Keys: []string{FullKey("a"), FullKey("b"), FullKey("c")}, Backend: BackendOpts{Etcd: true}})
	if err != nil {
		return nil, nil, err
	}
	return env, etcd.New(env.B, NopMetrics, &ScriptedPeers{Leader: true}), nil
}

func probeC16GuardedDeleteRev0() (bool, string) {
	env, srv, err := c16ProbeEnv()
	if err != nil {
		return false, err.Error()
	}
	defer env.Close()
	ctx := context.Background()
	if _, err := srv.Txn(ctx, txnCreate([]byte(FullKey("a")), []byte("x"))); err != nil {
		return false, err.Error()
	}
	resp, err := srv.Txn(ctx, txnDelete([]byte(FullKey("a")), 0))
	if err != nil {
		return false, ""
	}
	r, _ := srv.Range(ctx, &etcdserverpb.RangeRequest{Key: []byte(FullKey("a"))})
	if resp.Succeeded || len(r.GetKvs()) == 0 {
		return true, fmt.Sprintf("If(mod(key)==0).Then(delete) on an existing key: succeeded=%v, key still present=%v (etcd: compare fails, nothing deleted)", resp.Succeeded, len(r.GetKvs()) == 1)
	}
	return false, ""
}

func probeC16UnguardedDeleteMissing() (bool, string) {
	env, srv, err := c16ProbeEnv()
	if err != nil {
		return false, err.Error()
	}
	defer env.Close()
	resp, err := srv.Txn(context.Background(), txnUnguardedDelete([]byte(FullKey("a"))))
	if err != nil {
		return false, ""
	}
	if !resp.Succeeded {
		return true, "Then(get, delete) without compares on a missing key: succeeded=false (etcd: a transaction without compares always succeeds)"
	}
	return false, ""
}

// probeC16ContinueKey: kube-apiserver pages a list by asking for the range that starts at lastKey+"\x00"
func probeC16ContinueKey() (bool, string) {
	env, srv, err := c16ProbeEnv()
	if err != nil {
		return false, err.Error()
	}
	defer env.Close()
	ctx := context.Background()
	for _, k := range []string{"pods/a", "pods/b", "pods/c"} {
		if _, err := srv.Txn(ctx, txnCreate([]byte(FullKey(k)), []byte("x"))); err != nil {
			return false, err.Error()
		}
	}
	WaitCommitted(env.B, env.Init+3, 5*time.Second)
	end := backend.PrefixEnd([]byte(FullKey("pods/")))
	p1, err := srv.Range(ctx, &etcdserverpb.RangeRequest{Key: []byte(FullKey("pods/")), RangeEnd: end, Limit: 2})
	if err != nil || len(p1.Kvs) != 2 {
		return false, fmt.Sprintf("first page: %v %v", p1, err)
	}
	last := p1.Kvs[len(p1.Kvs)-1].Key
	p2, err := srv.Range(ctx, &etcdserverpb.RangeRequest{Key: append(append([]byte{}, last...), 0), RangeEnd: end, Limit: 2, Revision: p1.Header.Revision})
	if err != nil {
		return true, fmt.Sprintf("the second page of a paginated list (range starting at lastKey+\"\\x00\") is refused: %v", err)
	}
	var keys []string
	for _, kv := range p2.Kvs {
		keys = append(keys, string(kv.Key))
	}
	if len(keys) != 1 || keys[0] != FullKey("pods/c") {
		return true, fmt.Sprintf("second page of a paginated list (range starting at %q) returned %q; etcd returns only %q", string(last)+"\x00", keys, FullKey("pods/c"))
	}
	return false, ""
}

func probeC16CountLimited() (bool, string) {
	env, srv, err := c16ProbeEnv()
	if err != nil {
		return false, err.Error()
	}
	defer env.Close()
	ctx := context.Background()
	for _, k := range []string{"a", "b", "c"} {
		if _, err := srv.Txn(ctx, txnCreate([]byte(FullKey(k)), []byte("x"))); err != nil {
			return false, err.Error()
		}
	}
	_ = env.Settle()
	WaitCommitted(env.B, env.Init+3, 5*time.Second)
	r, err := srv.Range(ctx, &etcdserverpb.RangeRequest{Key: []byte(Prefix + "/"), RangeEnd: backend.PrefixEnd([]byte(Prefix + "/")), Limit: 1})
	if err != nil {
		return false, err.Error()
	}
	if r.Count != 3 {
		return true, fmt.Sprintf("Range with limit 1 over 3 keys reports count=%d (etcd: 3)", r.Count)
	}
	return false, ""
}

func init() {
	specC16.Probes = map[string]func() (bool, string){
		"guarded-delete-revision-zero":        probeC16GuardedDeleteRev0,
		"unguarded-delete-missing-key":        probeC16UnguardedDeleteMissing,
		"continue-key-returns-last-key-again": probeC16ContinueKey,
		"count-of-limited-range":              probeC16CountLimited,
		"unsupported-shape-executed":          probeC16UnsupportedExecuted,
	}
}

// regression probe for the repaired recognisers: every unsupported variant must be rejected
func probeC16UnsupportedExecuted() (bool, string) {
	for _, v := range c16Unsupported {
		env, srv, err := c16ProbeEnv()
		if err != nil {
			return false, err.Error()
		}
		r1, err := srv.Txn(context.Background(), txnCreate([]byte(FullKey("a")), []byte("x")))
		if err != nil {
			env.Close()
			return false, err.Error()
		}
		rev := r1.Header.Revision
		if v == "create-compare-key-differs" {
			rev = 0
		}
		_, terr := srv.Txn(context.Background(), buildUnsupported(v, []byte(FullKey("a")), []byte(FullKey("b")), []byte("y"), rev))
		env.Close()
		if terr == nil {
			return true, fmt.Sprintf("unsupported transaction shape %q was executed instead of rejected", v)
		}
	}
	return false, ""
}
