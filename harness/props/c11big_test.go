package props

// C11, big batches: "a write batch takes effect entirely or not at all" must also hold for a batch that exceeds what
// the engine can take in one transaction (Badger refuses such a transaction as too big)

import (
	"bytes"
	"context"
	"fmt"
	"strings"
	"testing"

	"pgregory.net/rapid"
)

type c11BigCase struct {
	Engine string
	N      int    // puts in the batch
	Pad    int    // bytes of padding in every key
	Tail   string // none | cas-fails | pine-fails | cas-holds
	Pre    int    // keys written before (small batch)
	// Dels: the big batch deletes N keys written beforehand (in several ordinary batches) instead of putting N keys
	Dels bool `json:",omitempty"`
}

func genC11Big(t *rapid.T) interface{} {
	c := &c11BigCase{Engine: EnvStr("VERIF_ENGINE", EngBadger)}
	if DrawBool(t, 25, "manySmall") {
		c.N, c.Pad = rapid.SampledFrom([]int{20000, 104000, 106000, 120000}).Draw(t, "nsmall"), 0
	} else {
		c.N, c.Pad = rapid.SampledFrom([]int{20, 200, 320, 340, 400}).Draw(t, "n"), rapid.SampledFrom([]int{1000, 16000, 32000}).Draw(t, "pad")
	}
	c.Tail = rapid.SampledFrom([]string{"none", "cas-fails", "cas-fails", "pine-fails", "cas-holds"}).Draw(t, "tail")
	c.Pre = rapid.IntRange(1, 5).Draw(t, "pre")
	if c.Pad == 0 && DrawBool(t, 50, "dels") {
		c.Dels = true
	}
	return c
}

func runC11Big(ci interface{}, st *CaseStats) error {
	c := ci.(*c11BigCase)
	eng, err := OpenEngine(c.Engine)
	if err != nil {
		return Inconclusivef("engine: %v", err)
	}
	defer eng.Close()
	kv := eng.KV
	ctx := context.Background()
	st.Label("engine:" + c.Engine)
	pre := kv.BeginBatchWrite()
	for i := 0; i < c.Pre; i++ {
		pre.Put([]byte(fmt.Sprintf("c11/pre/%d", i)), []byte(fmt.Sprintf("p%d", i)), 0)
	}
	if err := pre.Commit(ctx); err != nil {
		return Inconclusivef("prelude: %v", err)
	}
	pad := strings.Repeat("k", c.Pad)
	if c.Dels {
		for i := 0; i < c.N; i += 10000 {
			pb := kv.BeginBatchWrite()
			for j := i; j < i+10000 && j < c.N; j++ {
				pb.Put([]byte(fmt.Sprintf("c11/big/%s/%07d", pad, j)), []byte("v"), 0)
			}
			if err := pb.Commit(ctx); err != nil {
				return Inconclusivef("populate: %v", err)
			}
		}
		st.Label("big-batch-of-deletes")
	}
	before, err := c11Dump(kv)
	if err != nil {
		return Inconclusivef("dump: %v", err)
	}
	b := kv.BeginBatchWrite()
	for i := 0; i < c.N; i++ {
		if c.Dels {
			b.Del([]byte(fmt.Sprintf("c11/big/%s/%07d", pad, i)))
		} else {
			b.Put([]byte(fmt.Sprintf("c11/big/%s/%07d", pad, i)), []byte("v"), 0)
		}
	}
	mustFail := false
	switch c.Tail {
	case "cas-fails":
		b.CAS([]byte("c11/pre/0"), []byte("new"), []byte("not-the-value"), 0)
		mustFail = true
	case "pine-fails":
		b.PutIfNotExist([]byte("c11/pre/0"), []byte("new"), 0)
		mustFail = true
	case "cas-holds":
		b.CAS([]byte("c11/pre/0"), []byte("new"), []byte("p0"), 0)
	}
	cerr := b.Commit(ctx)
	after, err := c11Dump(kv)
	if err != nil {
		return Inconclusivef("dump: %v", err)
	}
	what := fmt.Sprintf("batch of %d %s (%d-byte keys) + %s: Commit returned %v", c.N, map[bool]string{false: "puts", true: "deletes"}[c.Dels], c.Pad+20, c.Tail, cerr)
	if mustFail && cerr == nil {
		return fmt.Errorf("%s although its condition does not hold", what)
	}
	if cerr != nil {
		// nothing of it may be there
		if len(after) != len(before) {
			return fmt.Errorf("%s, yet %d of its records were written (store had %d records, has %d)", what, len(after)-len(before), len(before), len(after))
		}
		for k, v := range before {
			if w, ok := after[k]; !ok || !bytes.Equal(v, w) {
				return fmt.Errorf("%s, yet record %q changed from %q to %q", what, k, v, w)
			}
		}
		st.Label("refused:" + c.Tail)
		if !mustFail {
			st.Label("refused-by-the-engine-as-too-big")
		}
		st.Nontrivial()
		return nil
	}
	// all of it must be there
	want := len(before) + c.N
	if c.Dels {
		want = len(before) - c.N
	}
	if len(after) != want {
		return fmt.Errorf("%s, but the store holds %d records instead of %d", what, len(after), want)
	}
	if c.Tail == "cas-holds" && !bytes.Equal(after["pre/0"], []byte("new")) {
		return fmt.Errorf("%s, but its compare-and-swap did not take effect", what)
	}
	st.Label("committed")
	return nil
}

var specC11Big = &Spec{
	ID:      "C11",
	Rule:    "big-batch mode: case = one batch of 20..400 puts with 1..32 KiB keys, or 20 000..120 000 small puts or deletes of existing keys (around and beyond what Badger takes in one transaction), optionally ended by a compare-and-swap / put-if-absent whose condition fails or holds. Oracle: Commit returns an error whenever a condition fails; after an error the store is byte-identical to before, after success every record of the batch is there. Non-trivial = the batch was refused; distinct = SHA-1 of the case",
	Gen:     genC11Big,
	New:     func() interface{} { return &c11BigCase{} },
	Run:     runC11Big,
	Engines: []string{EngBadger, EngBadgerMet, EngMem},
}

func TestC11Big(t *testing.T) { RunProperty(t, specC11Big) }
