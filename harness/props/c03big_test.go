package props

import (
	"bytes"
	"context"
	"fmt"
	"math"
	"testing"

	proto "github.com/kubewharf/kubebrain-client/api/v2rpc"
	"pgregory.net/rapid"

	"github.com/kubewharf/kubebrain/pkg/backend"
)

// C03, big-range mode. The ordinary C03 cases hold 2-5 keys, C13's bulk cases a few hundred small ones. Here a range
// holds thousands of keys or tens of MiB of values, and the limits lie around the sizes at which an implementation is
// tempted to cap, pre-allocate or page: powers of two, the number of live keys +-1, the platform's extremes.
// Oracle: the model's snapshot at the read revision, cut at the limit, with the more-flag.

type c03BigCase struct {
	Engine string
	// N keys "big/%06d" are created; ValKB = size of each value in KiB (0 = a few bytes)
	N     int
	ValKB int
	// Dels / Ups: indices (mod N) deleted / updated after the creation; reads happen at the end and at Mid
	Dels []int
	Ups  []int
	// Reads: [from index, limit]; from = -1 starts at the prefix
	Reads [][2]int64
	// Historic: also read at the revision right after the creation
	Historic bool
}

var bigCounts = []int{257, 300, 301, 1023, 1025, 2049, 4095, 4096, 4097, 4200, 5000, 8193}

func genC03Big(t *rapid.T) interface{} {
	c := &c03BigCase{Engine: EnvStr("VERIF_ENGINE", EngMem)}
	if DrawBool(t, 30, "bigValues") {
		// few keys, large values: 8..48 keys of 256 KiB..1 MiB
		c.N = rapid.IntRange(8, 48).Draw(t, "n")
		c.ValKB = rapid.SampledFrom([]int{256, 512, 1000, 1024}).Draw(t, "valKB")
	} else {
		// rapid prefers small indices: pick the class by percentage so that half of the cases hold >= 4095 keys
		lo, hi := 0, 6
		if DrawBool(t, 50, "thousands") {
			lo, hi = 6, len(bigCounts)
		}
		c.N = bigCounts[lo+DrawIntn(t, hi-lo, "n")] + rapid.IntRange(-1, 1).Draw(t, "nOff")
	}
	c.Dels = rapid.SliceOfN(rapid.IntRange(0, c.N-1), 0, 6).Draw(t, "dels")
	c.Ups = rapid.SliceOfN(rapid.IntRange(0, c.N-1), 0, 6).Draw(t, "ups")
	nr := rapid.IntRange(2, 6).Draw(t, "nreads")
	log2 := 0
	for 1<<uint(log2+1) <= c.N {
		log2++
	}
	for i := 0; i < nr; i++ {
		from := int64(-1)
		if DrawBool(t, 30, "fromKey") {
			from = int64(rapid.IntRange(0, c.N/8).Draw(t, "from"))
		}
		var limit int64
		switch k := rapid.IntRange(0, 99).Draw(t, "limitKind"); {
		case k < 10:
			limit = 0
		case k < 40:
			limit = int64(c.N + rapid.IntRange(-8, 2).Draw(t, "nearN"))
		case k < 65:
			// powers of two around the number of keys
			limit = int64(1)<<uint(log2+rapid.IntRange(-2, 1).Draw(t, "pow")) + int64(rapid.IntRange(-1, 1).Draw(t, "powOff"))
		case k < 80:
			limit = rapid.SampledFrom([]int64{math.MaxInt32 - 1, math.MaxInt32, math.MaxInt32 + 1, 1 << 40, math.MaxInt64 - 1, math.MaxInt64}).Draw(t, "huge")
		default:
			limit = int64(rapid.IntRange(1, c.N).Draw(t, "any"))
		}
		if limit < 0 {
			limit = 0
		}
		c.Reads = append(c.Reads, [2]int64{from, limit})
	}
	c.Historic = DrawBool(t, 50, "historic")
	return c
}

func runC03Big(ci interface{}, st *CaseStats) error {
	c := ci.(*c03BigCase)
	env, err := NewSeqEnv(SeqOpts{Engine: c.Engine, Keys: []string{FullKey("big/x")}, Backend: BackendOpts{Etcd: true}})
	if err != nil {
		return Inconclusivef("env: %v", err)
	}
	defer env.Close()
	ctx := context.Background()
	name := func(i int) string { return FullKey(fmt.Sprintf("big/%06d", i)) }
	value := func(i, gen int) []byte {
		if c.ValKB == 0 {
			return []byte(fmt.Sprintf("v%d.%d", i, gen))
		}
		return bytes.Repeat([]byte(fmt.Sprintf("%07d.", i*10+gen)), c.ValKB*128)
	}
	for i := 0; i < c.N; i++ {
		v := value(i, 0)
		r, err := env.B.Create(ctx, &proto.CreateRequest{Key: []byte(name(i)), Value: v})
		if err != nil || !r.Succeeded {
			return fmt.Errorf("create %d of %d: %v %v", i, c.N, r, err)
		}
		env.M.ApplyPut(name(i), v, r.Header.Revision, true)
		env.LastRev = r.Header.Revision
	}
	if err := env.Settle(); err != nil {
		return err
	}
	mid := env.LastRev
	for gi, i := range c.Ups {
		live, ok := env.M.Live(name(i))
		if !ok {
			continue
		}
		v := value(i, gi+1)
		r, err := env.B.Update(ctx, &proto.UpdateRequest{Kv: &proto.KeyValue{Key: []byte(name(i)), Value: v, Revision: live.Rev}})
		if err != nil || !r.Succeeded {
			return fmt.Errorf("update of key %d: %v %v", i, r, err)
		}
		env.M.ApplyPut(name(i), v, r.Header.Revision, false)
		env.LastRev = r.Header.Revision
	}
	for _, i := range c.Dels {
		live, ok := env.M.Live(name(i))
		if !ok {
			continue
		}
		r, err := env.B.Delete(ctx, &proto.DeleteRequest{Key: []byte(name(i)), Revision: live.Rev})
		if err != nil || !r.Succeeded {
			return fmt.Errorf("delete of key %d: %v %v", i, r, err)
		}
		env.M.ApplyDelete(name(i), r.Header.Revision)
		env.LastRev = r.Header.Revision
	}
	if err := env.Settle(); err != nil {
		return err
	}
	end := backend.PrefixEnd([]byte(FullKey("big/")))
	live, _ := env.M.Range([]byte(FullKey("big/")), end, env.LastRev, 0)
	revs := []uint64{0}
	if c.Historic {
		revs = append(revs, mid)
	}
	capped := false
	for _, rd := range c.Reads {
		start := []byte(FullKey("big/"))
		if rd[0] >= 0 {
			start = []byte(name(int(rd[0])))
		}
		for _, rev := range revs {
			use := rev
			if use == 0 {
				use = env.LastRev
			}
			r, err := env.B.List(ctx, &proto.RangeRequest{Key: start, End: end, Revision: rev, Limit: rd[1]})
			if err != nil {
				return fmt.Errorf("List(from %d, limit %d, rev %d) over %d keys (%d KiB each) returned error %v", rd[0], rd[1], rev, c.N, c.ValKB, err)
			}
			want, more := env.M.Range(start, end, use, int(rd[1]))
			if rd[1] > math.MaxInt32 {
				want, more = env.M.Range(start, end, use, 0)
			}
			if d := sameKVs(r.Kvs, want); d != "" {
				return fmt.Errorf("List(from %d, limit %d, rev %d[%d]) over %d keys (%d live, %d KiB each): %s (got %d kvs more=%v, want %d kvs more=%v)", rd[0], rd[1], rev, use, c.N, len(live), c.ValKB, cut(d, 300), len(r.Kvs), r.More, len(want), more)
			}
			if r.More != more {
				return fmt.Errorf("List(from %d, limit %d, rev %d[%d]) over %d keys (%d live, %d KiB each): more=%v with %d kvs, want more=%v", rd[0], rd[1], rev, use, c.N, len(live), c.ValKB, r.More, len(r.Kvs), more)
			}
			if more {
				capped = true
			}
		}
	}
	cr, err := env.B.Count(ctx, &proto.CountRequest{Key: []byte(FullKey("big/")), End: end})
	if err != nil {
		return fmt.Errorf("Count over %d keys returned error %v", c.N, err)
	}
	if int(cr.Count) != len(live) {
		return fmt.Errorf("Count over %d created keys = %d, %d are live", c.N, cr.Count, len(live))
	}
	if c.ValKB > 0 {
		st.Labelf("bytes-in-range:%dMiB", c.N*c.ValKB/1024)
	} else {
		st.Labelf("keys-in-range:%s", bigBucket(c.N))
	}
	if capped {
		st.Label("a-limit-cut-the-result")
	}
	if c.N >= 4096 || c.N*c.ValKB >= 16*1024 {
		st.Nontrivial()
	}
	return nil
}

func bigBucket(n int) string {
	switch {
	case n < 1000:
		return "<1000"
	case n < 4096:
		return "1000-4095"
	case n < 8192:
		return "4096-8191"
	}
	return ">=8192"
}

var specC03Big = &Spec{
	ID:      "C03",
	Rule:    "big-range mode: case = 257..8194 small keys or 8..48 keys of 256 KiB..1 MiB each, a few updates and deletes, 2..6 limited reads (limit 0, around the number of keys, around powers of two up to 65537, around 2^31, 2^40, 2^63-1; from the prefix or from a key) at the latest revision and optionally at the revision after the creation. Oracle: the model's snapshot cut at the limit, the more-flag, Count. Non-trivial = at least 4096 keys or at least 16 MiB of values in the range; distinct = SHA-1 of the case",
	Gen:     genC03Big,
	New:     func() interface{} { return &c03BigCase{} },
	Run:     runC03Big,
	Engines: []string{EngMem, EngTiKV},
}

func TestC03Big(t *testing.T) { RunProperty(t, specC03Big) }

func cut(s string, n int) string {
	if len(s) > n {
		return s[:n] + "..."
	}
	return s
}
