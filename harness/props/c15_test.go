package props

import (
	"context"
	"fmt"
	"strconv"
	"strings"
	"sync/atomic"
	"testing"
	"time"

	"pgregory.net/rapid"

	metav1 "k8s.io/apimachinery/pkg/apis/meta/v1"
	"k8s.io/client-go/tools/leaderelection/resourcelock"

	proto "github.com/kubewharf/kubebrain-client/api/v2rpc"

	"github.com/kubewharf/kubebrain/pkg/backend"
	"github.com/kubewharf/kubebrain/pkg/backend/election"
	"github.com/kubewharf/kubebrain/pkg/server/service"
	"github.com/kubewharf/kubebrain/pkg/server/service/leader"
	"github.com/kubewharf/kubebrain/pkg/storage"
)

// C15 — revisions keep increasing across leader changes and restarts

type c15Case struct {
	Engine  string
	Keys    []string
	Hist    []WOp
	Compact bool // the old leader compacts at its current revision before it stops
	StopAt  int  // the old leader stops after this many requests of Hist
	Reopen  bool // badger: close and re-open the directory between the leaders (restart)
	// AllSucceed rewrites every old-leader request at run time into one that succeeds (create if absent, else the
	// drawn update/delete with the right revision): used on Badger where failed writes are a recorded finding
	AllSucceed bool `json:"all_succeed,omitempty"`
	// FailBudget: with AllSucceed, this many requests of the history may fail or be rejected before the rewriting
	// starts. On Badger the hand-over itself commits twice (release, take-over), which covers two revisions consumed
	// without a commit; histories beyond that are the recorded finding
	FailBudget int   `json:"fail_budget,omitempty"`
	New        []WOp // first writes of the new leader
	// FollowerSyncs: the node that will become leader exists from the start and, as a follower serving reads, adopts
	// the old leader's read revision after these requests of Hist (same process, so not with a re-opened Badger)
	FollowerSyncs []int `json:"follower_syncs,omitempty"`
	// EagerWriters: goroutines that write through the new node the moment it reports itself leader (what request
	// handlers do: check IsLeader, then write)
	EagerWriters int `json:"eager_writers,omitempty"`
	// TSOFault > 0: the engine's timestamp service fails the new node's TSOFault-th request once (the election reads
	// the start revision from it right after writing the lock record)
	TSOFault int `json:"tso_fault,omitempty"`
	// StandbyQuiet: the standby does not look at the lock again during the old leader's term (a term shorter than the
	// elector's retry period): what it knows about the lock predates that term
	StandbyQuiet bool `json:"standby_quiet,omitempty"`
	// TSOFaultRun: that many consecutive requests fail from there (0 and 1 = one)
	TSOFaultRun int `json:"tso_fault_run,omitempty"`
	// Standby: the node that will take over is a long-lived standby; its elector has been polling the lock (Get) since
	// before the old leader's history (same process, so not with a re-opened Badger)
	Standby bool `json:"standby,omitempty"`
}

func genC15(t *rapid.T) interface{} {
	c := &c15Case{Engine: EnvStr("VERIF_ENGINE", EngMem)}
	c.Keys = genKeyPool(t, 2, 5)
	n := rapid.IntRange(1, 30).Draw(t, "nhist")
	failShare := rapid.SampledFrom([]int{0, 0, 20, 50, 80, 95}).Draw(t, "failShare")
	if c.Engine == EngBadger {
		// recorded finding: failed writes on Badger; excluded by construction beyond the budget
		c.AllSucceed = true
		c.FailBudget = rapid.SampledFrom([]int{2, 2, 1, 0}).Draw(t, "failBudget")
		if c.FailBudget > 0 && failShare < 50 {
			failShare = 50
		}
	}
	for i := 0; i < n; i++ {
		op := genWOp(t, len(c.Keys))
		if DrawBool(t, failShare, "fail") {
			// a request that fails its condition: consumes a revision without touching the engine
			if op.Kind == "create" {
				op = &WOp{Kind: "update", K: op.K, Exp: "stale"}
			} else {
				// far / half: an expected revision above everything issued (rejected; must not move the node's revisions)
				op.Exp = rapid.SampledFrom([]string{"stale", "other", "stale", "far", "half"}).Draw(t, "fexp")
			}
		} else if op.Kind != "create" {
			op.Exp = "ok"
		}
		c.Hist = append(c.Hist, *op)
	}
	c.Compact = DrawBool(t, 25, "compact")
	c.StopAt = rapid.IntRange(1, n).Draw(t, "stopAt")
	c.Reopen = c.Engine == EngBadger && DrawBool(t, 50, "reopen")
	if !c.Reopen && DrawBool(t, 50, "followerSyncs") {
		c.FollowerSyncs = rapid.SliceOfN(rapid.IntRange(0, n), 1, 3).Draw(t, "syncs")
	}
	c.EagerWriters = rapid.SampledFrom([]int{0, 2, 4}).Draw(t, "eager")
	if DrawBool(t, 15, "tsoFault") {
		c.TSOFault = rapid.IntRange(1, 4).Draw(t, "tsoFaultAt")
	}
	if !c.Reopen && DrawBool(t, 30, "standby") {
		c.Standby = true
		if c.TSOFault == 0 && DrawBool(t, 50, "standbyFault") {
			c.TSOFault = rapid.SampledFrom([]int{1, 1, 2, 3}).Draw(t, "standbyFaultAt")
		}
		c.StandbyQuiet = DrawBool(t, 50, "standbyQuiet")
		if c.TSOFault > 0 && DrawBool(t, 50, "faultRun") {
			// the timestamp service stays down for two or three requests in a row
			c.TSOFaultRun = rapid.IntRange(2, 3).Draw(t, "tsoFaultRun")
		}
	}
	for i := 0; i < 5; i++ {
		op := genWOp(t, len(c.Keys))
		if op.Kind != "create" {
			op.Exp = "ok"
		}
		c.New = append(c.New, *op)
	}
	return c
}

// initLikeLeader does what leader.go does when a node starts leading: read the revision from the lock description
// with prev != nil the term is the second one on this lock: a previous holder (prev, a bare resource lock of a node that
// is gone by now) created the record, standby() runs while that node still holds it (a standby that has been up for longer
// than the leader it will replace polls the lock from then on), the previous holder lets go and b acquires through
// Get + Update as the elector does
func initLikeLeader(b backend.Backend, identity string, prev resourcelock.Interface, standby func()) error {
	rl := b.GetResourceLock()
	now := metav1.NewTime(time.Now())
	rec := resourcelock.LeaderElectionRecord{HolderIdentity: identity, LeaseDurationSeconds: 8, AcquireTime: now, RenewTime: now}
	if prev == nil {
		if err := rl.Create(rec); err != nil {
			return err
		}
	} else {
		prec := rec
		prec.HolderIdentity = prev.Identity()
		if err := prev.Create(prec); err != nil {
			return err
		}
		standby()
		if _, err := prev.Get(); err != nil {
			return err
		}
		prec.HolderIdentity, prec.LeaseDurationSeconds = "", 1
		if err := prev.Update(prec); err != nil {
			return err
		}
		if _, err := rl.Get(); err != nil {
			return err
		}
		if err := rl.Update(rec); err != nil {
			return err
		}
	}
	if _, err := rl.Get(); err != nil {
		return err
	}
	infos := strings.Split(rl.Describe(), ",")
	if len(infos) != 2 {
		return fmt.Errorf("lock info invalid %s", rl.Describe())
	}
	v, err := strconv.ParseUint(infos[1], 10, 64)
	if err != nil {
		return err
	}
	b.SetCurrentRevision(v)
	return nil
}

func maxStoredRevision(kv storage.KvStorage) (uint64, error) {
	all, err := DumpAll(kv)
	if err != nil {
		return 0, err
	}
	var mx uint64
	for _, r := range all {
		if len(r.Key) < 13 {
			continue
		}
		if _, rev, derr := shimCoder.Decode(r.Key); derr == nil && rev > mx {
			mx = rev
		}
	}
	return mx, nil
}

var c15Seq int

func runC15(ci interface{}, st *CaseStats) error {
	c := ci.(*c15Case)
	st.Label("engine:" + c.Engine)
	if c.TSOFault > 0 {
		st.Label("timestamp-request-fails-during-takeover")
	}
	keys := make([]string, len(c.Keys))
	for i, k := range c.Keys {
		keys[i] = FullKey(k)
	}
	c15Seq++
	// stores stay open until the process exits: the new leader's elector cannot be stopped and treats a lost
	// lease as fatal
	eng, err := OpenEngine(c.Engine)
	if err != nil {
		return Inconclusivef("engine: %v", err)
	}
	oldB := backend.NewBackend(eng.KV, backend.Config{Prefix: Prefix, Identity: fmt.Sprintf("old-%d", c15Seq), WatchCacheSize: 256}, NopMetrics)
	// the future leader, as a follower of the old one
	var takeoverDone, tsoFaultFired, released, tsoAfterRelease int32
	// the new node's view of the store: optionally with one failing timestamp request
	newKV := func(kv storage.KvStorage) storage.KvStorage {
		if c.TSOFault <= 0 {
			return kv
		}
		sh := NewShim(kv, false)
		sh.OnTSO = func(idx int) Decision {
			// only while the node takes over: later reads use the timestamp service too and may simply fail
			// counted from the moment the old leader lets go of the lock (a standby has polled before)
			if atomic.LoadInt32(&released) == 0 {
				return Pass
			}
			run := c.TSOFaultRun
			if run < 1 {
				run = 1
			}
			if n := int(atomic.AddInt32(&tsoAfterRelease, 1)); n >= c.TSOFault && n < c.TSOFault+run && atomic.LoadInt32(&takeoverDone) == 0 {
				atomic.StoreInt32(&tsoFaultFired, 1)
				return FailNoApply
			}
			return Pass
		}
		if c.TSOFault%2 == 0 {
			// the node runs with --enable-storage-metrics: the failure has to come through the metrics wrapper as well
			return imetricsNew(sh)
		}
		return sh
	}
	var newB backend.Backend
	if (len(c.FollowerSyncs) > 0 || c.Standby) && !c.Reopen {
		newB = backend.NewBackend(newKV(eng.KV), backend.Config{Prefix: Prefix, Identity: fmt.Sprintf("new-%d", c15Seq), WatchCacheSize: 256}, NopMetrics)
		st.Label("new-leader-served-follower-reads-before")
	}
	var prev resourcelock.Interface
	var standbyPoll func()
	if c.Standby && newB != nil {
		// the standby was already polling the lock before the old leader's term began
		prev = election.NewResourceLockManager(election.Config{Prefix: Prefix, Identity: fmt.Sprintf("prev-%d", c15Seq), Timeout: 5 * time.Second}, eng.KV).GetResourceLock()
		standbyPoll = func() { _, _ = newB.GetResourceLock().Get() }
	}
	if err := initLikeLeader(oldB, fmt.Sprintf("old-%d", c15Seq), prev, standbyPoll); err != nil {
		return Inconclusivef("old leader init: %v", err)
	}
	env := &SeqEnv{Eng: eng, KV: eng.KV, B: oldB, M: NewModel(), Keys: keys, Ctx: context.Background()}
	env.Init = oldB.GetCurrentRevision()
	env.LastRev = env.Init
	syncAt := map[int]bool{}
	for _, p := range c.FollowerSyncs {
		syncAt[p] = true
	}
	nOK, nFail := 0, 0
	for i, op := range c.Hist {
		if i >= c.StopAt {
			break
		}
		if newB != nil && c.Standby && !c.StandbyQuiet && i%3 == 0 {
			// the standby's elector looks at the lock once per retry period
			_, _ = newB.GetResourceLock().Get()
			st.Label("standby-polled-during-old-term")
		}
		if newB != nil && syncAt[i] {
			// what SyncReadRevision does on a follower before a read
			newB.SetCurrentRevision(oldB.GetCurrentRevision())
			_, _ = newB.Get(env.Ctx, &proto.GetRequest{Key: []byte(keys[0])})
		}
		if c.AllSucceed && nFail >= c.FailBudget {
			_, live := env.M.Live(keys[op.K%len(keys)])
			switch {
			case !live:
				if op.Kind != "create" {
					st.Count("redirected:badger-failed-write", 1)
				}
				op = WOp{Kind: "create", K: op.K, V: op.V}
			case op.Kind == "create":
				st.Count("redirected:badger-failed-write", 1)
				op = WOp{Kind: "update", K: op.K, V: op.V, Exp: "ok"}
			default:
				op.Exp = "ok"
			}
		}
		res, err := env.DoWrite(op)
		if err != nil {
			return fmt.Errorf("old leader, request %d: %v", i, err)
		}
		if res.Outcome == "ok" {
			nOK++
		} else {
			nFail++
		}
	}
	if err := env.Settle(); err != nil {
		return err
	}
	if c.Compact {
		if _, err := oldB.Compact(env.Ctx, 0); err != nil {
			return fmt.Errorf("old leader compact: %v", err)
		}
	}
	// the old leader stops: its record is released (empty holder), as client-go does on a clean stop
	rl := oldB.GetResourceLock()
	if _, err := rl.Get(); err != nil {
		return Inconclusivef("old leader get lock: %v", err)
	}
	now := metav1.NewTime(time.Now())
	if err := rl.Update(resourcelock.LeaderElectionRecord{HolderIdentity: "", LeaseDurationSeconds: 1, AcquireTime: now, RenewTime: now}); err != nil {
		return Inconclusivef("old leader release: %v", err)
	}
	atomic.StoreInt32(&released, 1)
	StopBackend(oldB)
	time.Sleep(300 * time.Microsecond)
	kv := eng.KV
	if c.Reopen {
		dir := eng.Dir
		if err := eng.KV.Close(); err != nil {
			return Inconclusivef("close: %v", err)
		}
		h, err := OpenBadgerAt(dir, false)
		if err != nil {
			return Inconclusivef("re-open: %v", err)
		}
		kv = h.KV
		st.Label("restart:reopened-directory")
	}
	maxBefore, err := maxStoredRevision(kv)
	if err != nil {
		return Inconclusivef("scan: %v", err)
	}
	// new leader: a second backend over the same store, brought up through the real Campaign path
	if newB == nil {
		newB = backend.NewBackend(newKV(kv), backend.Config{Prefix: Prefix, Identity: fmt.Sprintf("new-%d", c15Seq), WatchCacheSize: 256}, NopMetrics)
	}
	started := make(chan struct{}, 1)
	// a request that arrives exactly while the election hands the initial revision to the backend: if the node already
	// reports itself leader at that instant, the request is served (as a handler would) before the revision is set
	var le leader.LeaderElection
	var gate service.PeerService
	var handoverRev uint64
	var handoverServed bool
	wrapped := &c15Backend{Backend: newB, beforeSet: func() {
		if gate != nil && gate.IsLeader() {
			r, err := newB.Create(context.Background(), &proto.CreateRequest{Key: []byte(fmt.Sprintf("%s/handover-%d", Prefix, c15Seq)), Value: []byte("h")})
			if err == nil && r.Succeeded {
				handoverServed, handoverRev = true, r.Header.Revision
			}
		}
	}}
	le = leader.NewLeaderElection(wrapped, NopMetrics, func(context.Context) { started <- struct{}{} }, func() {})
	// the gate the request handlers consult is the peer service's IsLeader (wired as server.NewServer does)
	gate = service.NewPeerService(le, NopMetrics, wrapped, service.Config{})
	// request handlers check IsLeader() and then write: clients that hammer the node get through the moment it
	// reports itself leader
	type eagerRes struct {
		w   int
		rev uint64
		ok  bool
		err error
	}
	eager := make(chan eagerRes, c.EagerWriters)
	stopEager := make(chan struct{})
	for w := 0; w < c.EagerWriters; w++ {
		go func(w int) {
			for {
				select {
				case <-stopEager:
					eager <- eagerRes{w: w}
					return
				default:
				}
				if gate.IsLeader() {
					r, err := newB.Create(context.Background(), &proto.CreateRequest{Key: []byte(fmt.Sprintf("%s/eager-%d-%d", Prefix, c15Seq, w)), Value: []byte("e")})
					res := eagerRes{w: w, err: err}
					if r != nil {
						res.rev, res.ok = r.Header.Revision, r.Succeeded
					}
					eager <- res
					return
				}
			}
		}(w)
	}
	go le.Campaign()
	// the sequencer spins: stop it when the case is over (the elector only needs the lock and the store)
	defer StopBackend(newB)
	select {
	case <-started:
	case <-time.After(20 * time.Second):
		return Inconclusivef("the new leader was not elected within 20s")
	}
	if !le.IsLeader() {
		return Inconclusivef("elected but IsLeader()==false")
	}
	// the election's first renewal round runs concurrently with the start callback: let it pass before disarming
	if c.TSOFault > 0 {
		time.Sleep(3 * time.Millisecond)
	}
	atomic.StoreInt32(&takeoverDone, 1)
	if atomic.LoadInt32(&tsoFaultFired) == 1 {
		st.Label("timestamp-request-failed-during-takeover")
	}
	if handoverServed {
		if handoverRev <= maxBefore {
			close(stopEager)
			return fmt.Errorf("the node reported itself leader before its revision was initialised: a write served at that instant was handed revision %d, the store already holds revisions up to %d", handoverRev, maxBefore)
		}
		env.M.ApplyPut(fmt.Sprintf("%s/handover-%d", Prefix, c15Seq), []byte("h"), handoverRev, true)
	}
	for w := 0; w < c.EagerWriters; w++ {
		select {
		case r := <-eager:
			if r.err == nil && r.ok {
				if r.rev <= maxBefore {
					close(stopEager)
					return fmt.Errorf("a write accepted the moment the node reported itself leader was handed revision %d, the store already holds revisions up to %d", r.rev, maxBefore)
				}
				// it is part of the store now
				env.M.ApplyPut(fmt.Sprintf("%s/eager-%d-%d", Prefix, c15Seq, r.w), []byte("e"), r.rev, true)
				if r.rev > env.LastRev {
					env.LastRev = r.rev
				}
				WaitCommitted(newB, r.rev, 10*time.Second)
				st.Label("eager-write-at-leadership-start")
			}
		case <-time.After(10 * time.Second):
			close(stopEager)
			return Inconclusivef("eager writer did not finish")
		}
	}
	first := newB.GetCurrentRevision()
	env.B = newB
	env.Init = first
	if env.LastRev < first {
		env.LastRev = first
	}
	where := fmt.Sprintf("new leader starts at revision %d, the store holds revisions up to %d (old leader: %d successful, %d failed requests)", first, maxBefore, nOK, nFail)
	// everything written before remains visible
	if _, err := env.CheckList([]byte(Prefix+"/"), []byte(Prefix+"0"), 0, 0); err != nil {
		// List at rev 0 reads at the new leader's revision
		return fmt.Errorf("%s: %v", where, err)
	}
	touchedExisting := false
	for i, op := range c.New {
		key := keys[op.K%len(keys)]
		if _, existed := env.M.Latest(key); existed {
			touchedExisting = true
		}
		// judge against the model without assuming anything about the new leader's counter
		env.LastRev = maxU64(env.LastRev, 0)
		save := env.LastRev
		env.LastRev = 0 // DoWrite's "greater than earlier revision" check is replaced by the explicit one below
		res, err := env.DoWrite(op)
		env.LastRev = maxU64(env.LastRev, save)
		if err != nil {
			return fmt.Errorf("%s: write %d of the new leader: %v", where, i, err)
		}
		if res.Rev != 0 && res.Rev <= maxBefore {
			return fmt.Errorf("%s: write %d of the new leader (%s %q) was handed revision %d, not greater than revision %d already present in the store", where, i, op.Kind, key, res.Rev, maxBefore)
		}
	}
	if err := env.Settle(); err != nil {
		return fmt.Errorf("%s: %v", where, err)
	}
	if _, err := env.CheckList([]byte(Prefix+"/"), []byte(Prefix+"0"), 0, 0); err != nil {
		return fmt.Errorf("%s, after the new leader's writes: %v", where, err)
	}
	if nFail > nOK {
		st.Label("old-history:more-failed-than-successful")
	}
	if nFail > nOK && touchedExisting {
		st.Nontrivial()
	}
	if c.Engine == EngBadger && nFail == 0 && touchedExisting {
		// on Badger failed writes are excluded (recorded finding); count the cases that still exercise the hand-over
		st.Label("badger:all-success-history")
		st.Nontrivial()
	}
	_ = proto.Event_PUT
	return nil
}

// c15Backend lets the harness act at the instant the election sets the initial revision
type c15Backend struct {
	backend.Backend
	beforeSet func()
}

// SetCurrentRevision implements backend.Backend
func (b *c15Backend) SetCurrentRevision(rev uint64) {
	if b.beforeSet != nil {
		b.beforeSet()
	}
	b.Backend.SetCurrentRevision(rev)
}

func maxU64(a, b uint64) uint64 {
	if a > b {
		return a
	}
	return b
}

func probeC15BadgerFailedWrites() (bool, string) {
	c := &c15Case{Engine: EngBadger, Keys: []string{"a", "b"}, StopAt: 13, Reopen: true}
	c.Hist = append(c.Hist, WOp{Kind: "create", K: 0})
	for i := 0; i < 11; i++ {
		c.Hist = append(c.Hist, WOp{Kind: "update", K: 0, Exp: "stale"})
	}
	// a successful write after many failed ones is stored under a revision far above Badger's transaction count
	c.Hist = append(c.Hist, WOp{Kind: "update", K: 0, Exp: "ok"})
	c.New = []WOp{{Kind: "update", K: 0, Exp: "ok"}, {Kind: "create", K: 1}}
	err := runC15(c, &CaseStats{})
	if err == nil {
		return false, ""
	}
	if _, inc := err.(*Inconclusive); inc {
		return false, err.Error()
	}
	return true, err.Error()
}

var specC15 = &Spec{
	ID:   "C15",
	Rule: "case = engine (memkv / TiKV mock / Badger, Badger usually re-opened from its directory = restart), an old leader initialised the way leader.go does it (revision parsed from the lock description) running 1..30 requests of which 0/20/50/80/95% fail their condition (consuming revisions without touching the engine), optionally compacting, stopping after any request and releasing the lock; then a second backend over the same store elected through the real leader.NewLeaderElection(...).Campaign() path, issuing 5 writes. Oracle: every revision the new leader hands out > every revision stored (raw scan), guarded writes on pre-existing keys behave per the reference model, List at revision 0 equals the model before and after. Non-trivial = the old history has more failed than successful requests and the new leader writes to a pre-existing key (Badger: all-success histories that touch a pre-existing key, failed writes being a recorded finding); distinct = SHA-1 of the case",
	Gen:  genC15,
	New:  func() interface{} { return &c15Case{} },
	Run:  runC15,
	Probes: map[string]func() (bool, string){
		"badger-failed-writes-outrun-timestamp": probeC15BadgerFailedWrites,
	},
	Assumptions: []string{
		"the old leader's stop is a clean release of the lock record (a crashed leader adds an 8 s lease wait and nothing else)",
		"stores stay open until the process exits (the elector cannot be stopped), so runs are capped at a few dozen cases per process",
	},
	Engines: []string{EngMem, EngTiKV, EngBadger},
}

func TestC15(t *testing.T) { RunProperty(t, specC15) }
