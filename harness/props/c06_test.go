package props

import (
	"bytes"
	"context"
	"fmt"
	"sort"
	"strings"
	"sync"
	"sync/atomic"
	"testing"
	"time"

	"pgregory.net/rapid"

	proto "github.com/kubewharf/kubebrain-client/api/v2rpc"

	"github.com/kubewharf/kubebrain/pkg/backend"
)

// C06 — list-then-watch reconstructs the store (metamorphic oracle, no model needed)

type c06Case struct {
	Mode      string // driven | free
	Engine    string
	CacheSize int
	// driven mode
	Actions []c05Action `json:"actions,omitempty"` // write | seq | obs
	// free mode
	Writers    [][]WOp `json:"writers,omitempty"`
	Compact    bool    `json:"compact,omitempty"`
	CompactLag int     `json:"compact_lag,omitempty"`
	Rounds     int     `json:"rounds,omitempty"`
	PrefixSel  int     `json:"prefix"`
}

func genC06(t *rapid.T) interface{} {
	c := &c06Case{Mode: EnvStr("VERIF_MODE", "driven"), Engine: EnvStr("VERIF_ENGINE", EngMem)}
	c.CacheSize = rapid.SampledFrom([]int{4, 16, 64, 1024}).Draw(t, "cache")
	c.PrefixSel = DrawIntn(t, 3, "prefix")
	genOp := func() *WOp {
		kind := rapid.SampledFrom([]string{"create", "create", "update", "update", "update", "delete", "delete"}).Draw(t, "op")
		op := &WOp{Kind: kind, K: DrawIntn(t, len(c05Keys), "key"), V: rapid.IntRange(0, 7).Draw(t, "val")}
		if kind != "create" {
			op.Exp = rapid.SampledFrom([]string{"latest", "latest", "latest", "stale", "zero", "other"}).Draw(t, "exp")
		}
		return op
	}
	if c.Mode == "driven" {
		na := rapid.IntRange(8, 50).Draw(t, "nactions")
		for i := 0; i < na; i++ {
			k := rapid.IntRange(0, 9).Draw(t, "kind")
			switch {
			case i < 2 || k < 5:
				op := genOp()
				if op.Exp == "latest" {
					op.Exp = "ok"
				}
				c.Actions = append(c.Actions, c05Action{Kind: "write", W: op})
			case k < 8:
				c.Actions = append(c.Actions, c05Action{Kind: "seq"})
			default:
				c.Actions = append(c.Actions, c05Action{Kind: "obs"})
			}
		}
		return c
	}
	nw := rapid.IntRange(1, 3).Draw(t, "nwriters")
	for i := 0; i < nw; i++ {
		n := rapid.IntRange(5, 40).Draw(t, "nops")
		var ops []WOp
		for j := 0; j < n; j++ {
			ops = append(ops, *genOp())
		}
		c.Writers = append(c.Writers, ops)
	}
	c.Compact = DrawBool(t, 40, "compact")
	c.CompactLag = rapid.IntRange(1, 8).Draw(t, "lag")
	c.Rounds = rapid.IntRange(1, 4).Draw(t, "rounds")
	return c
}

type c06KV struct {
	val []byte
	rev uint64
}

func listToMap(kvs []*proto.KeyValue) map[string]c06KV {
	m := map[string]c06KV{}
	for _, kv := range kvs {
		m[string(kv.Key)] = c06KV{val: kv.Value, rev: kv.Revision}
	}
	return m
}

// c06Judge applies events with revision in (R, R'] to the first list and compares with the second
func c06Judge(l1 []*proto.KeyValue, r1 uint64, evs []*proto.Event, l2 []*proto.KeyValue, r2 uint64, what string) error {
	err := c06JudgeInner(l1, r1, evs, l2, r2, what)
	if err == nil {
		return nil
	}
	var sb strings.Builder
	sb.WriteString(err.Error())
	sb.WriteString(fmt.Sprintf("\n  first list @%d: %s\n  events:", r1, fmtKVs(l1)))
	for _, e := range evs {
		sb.WriteString(fmt.Sprintf(" [%s %s @%d kv@%d]", e.Type, e.Kv.Key, e.Revision, e.Kv.Revision))
	}
	sb.WriteString(fmt.Sprintf("\n  second list @%d: %s", r2, fmtKVs(l2)))
	return fmt.Errorf("%s", sb.String())
}

func c06JudgeInner(l1 []*proto.KeyValue, r1 uint64, evs []*proto.Event, l2 []*proto.KeyValue, r2 uint64, what string) error {
	state := listToMap(l1)
	var last uint64
	applied := 0
	for _, e := range evs {
		if e.Revision <= r1 {
			return fmt.Errorf("%s: watch from %d delivered an event at revision %d", what, r1+1, e.Revision)
		}
		if e.Revision <= last {
			return fmt.Errorf("%s: events out of order: %d after %d", what, e.Revision, last)
		}
		last = e.Revision
		if e.Revision > r2 {
			continue
		}
		applied++
		if e.Type == proto.Event_DELETE {
			delete(state, string(e.Kv.Key))
		} else {
			state[string(e.Kv.Key)] = c06KV{val: e.Kv.Value, rev: e.Revision}
		}
	}
	want := listToMap(l2)
	keys := map[string]bool{}
	for k := range state {
		keys[k] = true
	}
	for k := range want {
		keys[k] = true
	}
	var ks []string
	for k := range keys {
		ks = append(ks, k)
	}
	sort.Strings(ks)
	for _, k := range ks {
		s, okS := state[k]
		w, okW := want[k]
		switch {
		case okS && !okW:
			return fmt.Errorf("%s: list@%d + %d events up to %d has %q (@%d), the list served at %d does not", what, r1, applied, r2, k, s.rev, r2)
		case !okS && okW:
			return fmt.Errorf("%s: the list served at %d has %q (@%d), list@%d + %d events up to %d does not", what, r2, k, w.rev, r1, applied, r2)
		case !bytes.Equal(s.val, w.val) || s.rev != w.rev:
			return fmt.Errorf("%s: key %q: list@%d + events gives (%q @%d), the list served at %d has (%q @%d)", what, k, r1, trunc(s.val), s.rev, r2, trunc(w.val), w.rev)
		}
	}
	return nil
}

func runC06(ci interface{}, st *CaseStats) error {
	c := ci.(*c06Case)
	if c.Mode == "driven" {
		return runC06Driven(c, st)
	}
	return runC06Free(c, st)
}

func runC06Driven(c *c06Case, st *CaseStats) error {
	keys := make([]string, len(c05Keys))
	for i, k := range c05Keys {
		keys[i] = FullKey(k)
	}
	env, err := NewSeqEnv(SeqOpts{Engine: EngMem, Keys: keys, Backend: BackendOpts{CacheSize: c.CacheSize}})
	if err != nil {
		return Inconclusivef("engine: %v", err)
	}
	d := NewWatchDriver(env.B)
	defer func() { d.Close(); env.Close() }()
	ctx, cancel := context.WithCancel(context.Background())
	defer cancel()
	st.Label("mode:driven")
	prefix := c05Prefixes[c.PrefixSel%3]
	end := backend.PrefixEnd([]byte(prefix))
	// observer stage machine: 0 list1, 1..3 watch stages, then idle until the end
	stage := 0
	var l1 *proto.RangeResponse
	var w *DrivenWatch
	okWrites, failWrites := 0, 0
	var r1 uint64
	for ai, a := range c.Actions {
		switch a.Kind {
		case "write":
			res, err := env.DoWrite(*a.W)
			if err != nil {
				return fmt.Errorf("action %d: %v", ai, err)
			}
			if stage > 0 && strings.HasPrefix(res.Key, prefix) {
				if res.Outcome == "ok" {
					okWrites++
				} else {
					failWrites++
				}
			}
			if err := d.NoteWrite(env.LastRev); err != nil {
				return Inconclusivef("action %d: %v", ai, err)
			}
		case "seq":
			if _, err := d.StepSeq(); err != nil {
				return Inconclusivef("action %d: %v", ai, err)
			}
		case "obs":
			switch {
			case stage == 0:
				l1, err = env.B.List(ctx, &proto.RangeRequest{Key: []byte(prefix), End: end})
				if err != nil {
					return fmt.Errorf("first list: %v", err)
				}
				r1 = l1.Header.Revision
				w = d.StartWatch(prefix, r1+1)
				stage = 1
			case !w.isDone(d):
				if err := d.Advance(w, ctx); err != nil {
					return Inconclusivef("action %d: %v", ai, err)
				}
			}
		}
	}
	if stage == 0 {
		return nil // observer never started: trivial
	}
	if err := d.Finish(w, ctx); err != nil {
		return Inconclusivef("finish: %v", err)
	}
	if w.Panic != "" {
		return fmt.Errorf("Watch panicked: %s", w.Panic)
	}
	if w.Err != nil {
		st.Label("sample-discarded:watch-refused")
		return nil
	}
	// some more sequencer progress may or may not have happened; the second list is taken wherever we are
	l2, err := env.B.List(ctx, &proto.RangeRequest{Key: []byte(prefix), End: end})
	if err != nil {
		return fmt.Errorf("second list: %v", err)
	}
	r2 := l2.Header.Revision
	// fence
	fk := prefix + "~fence"
	env.Keys = append(env.Keys, fk)
	if _, err := env.DoWrite(WOp{Kind: "create", K: len(env.Keys) - 1}); err != nil {
		return fmt.Errorf("fence: %v", err)
	}
	if err := d.NoteWrite(env.LastRev); err != nil {
		return Inconclusivef("fence: %v", err)
	}
	if err := d.Drain(); err != nil {
		return Inconclusivef("drain: %v", err)
	}
	if !w.ReadUntil(fk, 10*time.Second) {
		if w.Closed {
			st.Label("sample-discarded:watch-closed")
			return nil
		}
		return fmt.Errorf("events up to the second list's revision %d never arrived (fence not seen in 10s)", r2)
	}
	if err := c06Judge(l1.Kvs, r1, w.Received, l2.Kvs, r2, fmt.Sprintf("prefix %q", prefix)); err != nil {
		return err
	}
	if r1 < r2 && okWrites > 0 && failWrites > 0 {
		st.Nontrivial()
	}
	return nil
}

func runC06Free(c *c06Case, st *CaseStats) error {
	keys := make([]string, len(c05Keys))
	for i, k := range c05Keys {
		keys[i] = FullKey(k)
	}
	eng, err := OpenEngine(c.Engine)
	if err != nil {
		return Inconclusivef("engine: %v", err)
	}
	b := NewTestBackend(eng.KV, BackendOpts{CacheSize: c.CacheSize})
	defer func() {
		StopBackend(b)
		time.Sleep(300 * time.Microsecond)
		eng.Close()
	}()
	st.Label("mode:free-running")
	st.Label("engine:" + c.Engine)
	prefix := c05Prefixes[c.PrefixSel%3]
	end := backend.PrefixEnd([]byte(prefix))
	ctx := context.Background()
	var wg sync.WaitGroup
	var writersDone int32
	var okW, failW int64
	var vseq int64
	for wi := range c.Writers {
		wg.Add(1)
		go func(wi int) {
			defer wg.Done()
			defer func() { _ = recover() }()
			heads := map[string]uint64{}
			older := map[string]uint64{}
			for _, op := range c.Writers[wi] {
				key := keys[op.K%len(keys)]
				val := MakeValue(op.V, int(atomic.AddInt64(&vseq, 1)))
				var exp uint64
				switch op.Exp {
				case "latest":
					exp = heads[key]
				case "stale":
					exp = older[key]
					if exp == 0 {
						exp = InitRev
					}
				case "other":
					for k, r := range heads {
						if k != key {
							exp = r
						}
					}
					if exp == 0 {
						exp = InitRev
					}
				}
				note := func(ok bool, hdr uint64, kv *proto.KeyValue, del bool) {
					if ok {
						atomic.AddInt64(&okW, 1)
						older[key] = heads[key]
						if del {
							delete(heads, key)
						} else {
							heads[key] = hdr
						}
					} else {
						atomic.AddInt64(&failW, 1)
						if kv != nil {
							older[key] = heads[key]
							heads[key] = kv.Revision
						}
					}
				}
				switch op.Kind {
				case "create":
					if r, err := b.Create(ctx, &proto.CreateRequest{Key: []byte(key), Value: val}); err == nil {
						note(r.Succeeded, r.Header.Revision, nil, false)
					}
				case "update":
					if op.Exp == "latest" && exp == 0 {
						exp = InitRev
					}
					if r, err := b.Update(ctx, &proto.UpdateRequest{Kv: &proto.KeyValue{Key: []byte(key), Value: val, Revision: exp}}); err == nil {
						note(r.Succeeded, r.Header.Revision, r.Kv, false)
					}
				case "delete":
					if r, err := b.Delete(ctx, &proto.DeleteRequest{Key: []byte(key), Revision: exp}); err == nil {
						note(r.Succeeded, r.Header.Revision, r.Kv, true)
					}
				}
			}
		}(wi)
	}
	go func() { wg.Wait(); atomic.StoreInt32(&writersDone, 1) }()
	stopCompact := make(chan struct{})
	var cwg sync.WaitGroup
	if c.Compact {
		cwg.Add(1)
		go func() {
			defer cwg.Done()
			var lastC uint64
			for {
				select {
				case <-stopCompact:
					return
				default:
				}
				cur := b.GetCurrentRevision()
				if cur > InitRev+uint64(c.CompactLag) {
					r := cur - uint64(c.CompactLag)
					if r > lastC {
						_, _ = b.Compact(ctx, r)
						lastC = r
					}
				}
				time.Sleep(100 * time.Microsecond)
			}
		}()
	}
	defer func() { close(stopCompact); cwg.Wait() }()
	nontrivial := false
	for round := 0; round < c.Rounds; round++ {
		ok0, fail0 := atomic.LoadInt64(&okW), atomic.LoadInt64(&failW)
		l1, err := b.List(ctx, &proto.RangeRequest{Key: []byte(prefix), End: end})
		if err != nil {
			st.Label("sample-discarded:list-refused")
			continue
		}
		r1 := l1.Header.Revision
		wctx, wcancel := context.WithCancel(ctx)
		ch, err := b.Watch(wctx, prefix, r1+1)
		if err != nil {
			wcancel()
			st.Label("sample-discarded:watch-refused")
			continue
		}
		// let the writers make progress
		deadline := time.Now().Add(20 * time.Millisecond)
		for time.Now().Before(deadline) && atomic.LoadInt32(&writersDone) == 0 && b.GetCurrentRevision() < r1+6 {
			time.Sleep(50 * time.Microsecond)
		}
		l2, err := b.List(ctx, &proto.RangeRequest{Key: []byte(prefix), End: end})
		if err != nil {
			wcancel()
			st.Label("sample-discarded:list-refused")
			continue
		}
		r2 := l2.Header.Revision
		ok1, fail1 := atomic.LoadInt64(&okW), atomic.LoadInt64(&failW)
		fk := fmt.Sprintf("%s~fence%d", prefix, round)
		fr, err := b.Create(ctx, &proto.CreateRequest{Key: []byte(fk), Value: []byte("f")})
		if err != nil || !fr.Succeeded {
			wcancel()
			return fmt.Errorf("fence create failed: %v", err)
		}
		var evs []*proto.Event
		saw, closed := false, false
		to := time.After(15 * time.Second)
		for !saw && !closed {
			select {
			case batch, ok := <-ch:
				if !ok {
					closed = true
					break
				}
				for _, e := range batch {
					if string(e.Kv.Key) == fk {
						saw = true
						break
					}
					evs = append(evs, e)
				}
			case <-to:
				wcancel()
				return fmt.Errorf("round %d: events up to revision %d never arrived on a watch from %d (15s)", round, r2, r1+1)
			}
		}
		wcancel()
		if !saw {
			st.Label("sample-discarded:watch-closed")
			continue
		}
		if err := c06Judge(l1.Kvs, r1, evs, l2.Kvs, r2, fmt.Sprintf("round %d prefix %q", round, prefix)); err != nil {
			return err
		}
		st.Label("sample-judged")
		if r1 < r2 && ok1 > ok0 && fail1 > fail0 {
			nontrivial = true
		}
	}
	// wait for writers so the next case starts clean
	done := make(chan struct{})
	go func() { wg.Wait(); close(done) }()
	select {
	case <-done:
	case <-time.After(30 * time.Second):
		return Inconclusivef("writers did not finish")
	}
	if nontrivial {
		st.Nontrivial()
	}
	return nil
}

var specC06 = &Spec{
	ID:          "C06",
	Rule:        "driven mode: actions (writer's next successful or failing write | one sequencer step | observer step: List(prefix) -> R, then Watch(prefix, R+1) stage by stage), then a second List -> R' wherever the sequencer stands, a fence write, and the oracle. free mode: 1..3 writer goroutines with 5..40 ops each (expectations from their own last observations, so real conflicts), optional compactor trailing the committed revision by 1..8, observer repeating List / Watch(R+1) / List / fence 1..4 times, on memkv and the TiKV mock. Oracle (metamorphic): first list + delivered events with revision <= R' applied in order == second list (keys, values, modification revisions); a refused list/watch discards the sample. Non-trivial = R < R' with at least one successful and one failed write in between; distinct = SHA-1 of the case",
	Gen:         genC06,
	New:         func() interface{} { return &c06Case{} },
	Run:         runC06,
	Assumptions: []string{"free-running samples are not replayable schedule-exactly; the recorded lists and events are printed on failure"},
	Engines:     []string{EngMem, EngTiKV},
}

func TestC06(t *testing.T) { RunProperty(t, specC06) }
