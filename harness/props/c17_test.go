package props

import (
	"bytes"
	"context"
	"fmt"
	"strings"
	"testing"
	"time"

	"pgregory.net/rapid"

	proto "github.com/kubewharf/kubebrain-client/api/v2rpc"

	"github.com/kubewharf/kubebrain/pkg/backend"
	"github.com/kubewharf/kubebrain/pkg/backend/scanner"
)

// C17 — expiry removes only event keys, wholly, and only after the TTL

const c17TTL = 40 * time.Millisecond

// key pool: Event records, look-alikes, ordinary keys
var c17EventKeys = []string{Prefix + "/events/default/e1", Prefix + "/events/default/e2", Prefix + "/events/kube-system/e1"}
var c17LookAlikes = []string{Prefix + "/events", Prefix + "/eventsx/a", Prefix + "/pods/default/events", Prefix + "/event/default/e1", Prefix + "/leases/events-ns/l1"}

// look-alikes that contain the substring "/events/" away from the resource position (recorded finding, excluded from
// generation, probed separately)
var c17SubstringKeys = []string{Prefix + "/pods/events/mypod", Prefix + "/x/events/y"}
var c17Ordinary = []string{Prefix + "/pods/default/p1", Prefix + "/configmaps/default/c1"}

func isEventKey(k string) bool { return strings.HasPrefix(k, Prefix+"/events/") }

type c17Step struct {
	W     *WOp `json:"w,omitempty"`
	Mark  bool `json:"mark,omitempty"`  // a compaction at the current revision
	Pause int  `json:"pause,omitempty"` // milliseconds to wait before the step
	// Burst (backend level, with Mark): this many compactions back to back instead of one — more compaction marks
	// inside one TTL window than an implementation may want to remember
	Burst int `json:"burst,omitempty"`
}

type c17Case struct {
	Engine string
	Keys   []string
	Steps  []c17Step
	// RaceOnExpiry: when the expiry scan is about to delete the index record of an Event, a client update of that
	// Event lands first (between the scan's snapshot and its delete)
	RaceOnExpiry bool `json:"race_on_expiry,omitempty"`
	// FailIndexDelete: the engine fails (plain error, nothing applied) the scan's first delete of a live Event's
	// index record; whatever the scan does next, the Event stays whole or goes whole
	FailIndexDelete bool `json:"fail_index_delete,omitempty"`
}

func genC17(t *rapid.T) interface{} {
	c := &c17Case{Engine: EnvStr("VERIF_ENGINE", "memkv-nottl")}
	// at least two event keys, one look-alike, one ordinary key
	ev := rapid.Permutation(c17EventKeys).Draw(t, "ev")
	la := rapid.Permutation(c17LookAlikes).Draw(t, "la")
	c.Keys = append(c.Keys, ev[0], ev[1], la[0], c17Ordinary[DrawIntn(t, 2, "ord")])
	if DrawBool(t, 50, "moreLookalikes") {
		c.Keys = append(c.Keys, la[1])
	}
	if DrawBool(t, 30, "substringKey") {
		// would be a key like /registry/pods/events/mypod: recorded finding, redirected to a harmless look-alike
		c.Keys = append(c.Keys, la[2])
	}
	// prelude: most keys get created first
	for i := range c.Keys {
		if DrawBool(t, 85, "precreate") {
			c.Steps = append(c.Steps, c17Step{W: &WOp{Kind: "create", K: i, V: rapid.IntRange(0, 7).Draw(t, "pv")}})
		}
	}
	n := rapid.IntRange(2, 12).Draw(t, "nsteps")
	marks := 0
	for i := 0; i < n; i++ {
		s := c17Step{Pause: rapid.SampledFrom([]int{0, 0, 0, 5, 15, 30, 45, 60}).Draw(t, "pause")}
		if i >= 2 && DrawBool(t, 35, "mark") {
			s.Mark = true
			marks++
		} else {
			op := genWOp(t, len(c.Keys))
			if op.Kind != "create" {
				op.Exp = rapid.SampledFrom([]string{"ok", "ok", "ok", "stale"}).Draw(t, "exp")
			}
			s.W = op
		}
		c.Steps = append(c.Steps, s)
	}
	// end with two marks, usually more than a TTL apart, with a fresh change of one Event key in between:
	// the untouched Event may expire, the touched one must survive
	c.RaceOnExpiry = DrawBool(t, 25, "raceOnExpiry")
	if !c.RaceOnExpiry {
		c.FailIndexDelete = DrawBool(t, 30, "failIndexDelete")
	}
	c.Steps = append(c.Steps, c17Step{Mark: true, Pause: rapid.SampledFrom([]int{0, 10}).Draw(t, "p1")})
	if DrawBool(t, 75, "touch") {
		c.Steps = append(c.Steps, c17Step{Pause: rapid.SampledFrom([]int{20, 45, 60}).Draw(t, "p2"), W: &WOp{Kind: rapid.SampledFrom([]string{"update", "update", "create"}).Draw(t, "tk"), K: DrawIntn(t, 2, "tkey"), Exp: "ok"}})
		c.Steps = append(c.Steps, c17Step{Mark: true, Pause: rapid.SampledFrom([]int{0, 5}).Draw(t, "p3")})
	} else {
		c.Steps = append(c.Steps, c17Step{Mark: true, Pause: rapid.SampledFrom([]int{20, 45, 60}).Draw(t, "p2")})
	}
	return c
}

type c17Raw struct {
	index    []byte
	versions int
	// live counts version records that carry a value; a leftover deletion marker of an earlier delete is not part
	// of the Event any more (nothing reads it once the index record is gone, the next compaction removes it) and
	// native-TTL engines never gave it an expiry
	live int
}

func c17RawState(env *SeqEnv, key string) (c17Raw, error) {
	all, err := DumpAll(env.Eng.KV)
	if err != nil {
		return c17Raw{}, err
	}
	var r c17Raw
	for _, rec := range all {
		if len(rec.Key) < 13 {
			continue
		}
		uk, rev, derr := shimCoder.Decode(rec.Key)
		if derr != nil || string(uk) != key {
			continue
		}
		if rev == 0 {
			r.index = rec.Val
		} else {
			r.versions++
			if !bytes.Equal(rec.Val, []byte("tombstone")) {
				r.live++
			}
		}
	}
	return r, nil
}

func c17OpenEngine(name string) (*SeqEnv, error) {
	switch name {
	case "memkv-nottl":
		env, err := NewSeqEnv(SeqOpts{Engine: EngMem, UseShim: true, Backend: BackendOpts{CacheSize: 1024}})
		if err != nil {
			return nil, err
		}
		f := false
		env.Shim.TTL = &f
		return env, nil
	default:
		return NewSeqEnv(SeqOpts{Engine: name, UseShim: true, Backend: BackendOpts{CacheSize: 1024}})
	}
}

func runC17(ci interface{}, st *CaseStats) error {
	c := ci.(*c17Case)
	env, err := c17OpenEngine(c.Engine)
	if err != nil {
		return Inconclusivef("engine: %v", err)
	}
	defer env.Close()
	env.Keys = c.Keys
	st.Label("engine:" + c.Engine)
	ctx := context.Background()
	// the scanner under test, with a millisecond-scale TTL (Config.TTL is public)
	sc := scanner.NewScanner(env.KV, shimCoder, scanner.Config{CompactKey: []byte(Prefix + "/compact_key"), Tombstone: []byte("tombstone"), TTL: c17TTL}, NopMetrics)
	start, end := shimCoder.EncodeObjectKey([]byte(Prefix+"/"), 0), shimCoder.EncodeObjectKey(backend.PrefixEnd([]byte(Prefix+"/")), 0)
	wch, err := env.B.Watch(ctx, Prefix+"/", env.Init+1)
	if err != nil {
		return fmt.Errorf("watch: %v", err)
	}
	lastChange := map[string]time.Time{} // taken BEFORE the write call: measured age over-estimates true age
	expired := map[string]bool{}
	raceArmed := c.RaceOnExpiry
	failArmed := c.FailIndexDelete
	var raceErr error
	raced := false
	if env.Shim != nil {
		env.Shim.OnDelete = func(idx int, key []byte, current bool) Decision {
			if (!raceArmed && !failArmed) || len(key) < 13 {
				return Pass
			}
			uk, rev, derr := shimCoder.Decode(key)
			if derr != nil || rev != 0 || !isEventKey(string(uk)) {
				return Pass
			}
			if _, live := env.M.Live(string(uk)); !live {
				return Pass
			}
			if failArmed {
				failArmed = false
				st.Label("index-delete-of-expired-event-failed")
				return FailNoApply
			}
			// the scan is about to remove the index record of an expired Event: a client updates the Event now
			raceArmed = false
			for i, k := range c.Keys {
				if k == string(uk) {
					t0 := time.Now()
					if _, err := env.DoWrite(WOp{Kind: "update", K: i, Exp: "ok"}); err != nil {
						raceErr = err
					} else {
						lastChange[k] = t0
						raced = true
					}
				}
			}
			return Pass
		}
		defer func() { env.Shim.OnDelete = nil }()
	}
	var markTimes []time.Time
	expiredSomething, youngSurvived, lookalikeOld := false, false, false
	for si, s := range c.Steps {
		if s.Pause > 0 {
			time.Sleep(time.Duration(s.Pause) * time.Millisecond)
		}
		if s.W != nil {
			key := c.Keys[s.W.K%len(c.Keys)]
			t0 := time.Now()
			op := *s.W
			if expired[key] {
				// the key was expired: it must be creatable again
				op = WOp{Kind: "create", K: s.W.K, V: s.W.V}
			}
			res, err := env.DoWrite(op)
			if err != nil {
				return fmt.Errorf("step %d: %v", si, err)
			}
			if res.Outcome == "ok" {
				lastChange[key] = t0
				expired[key] = false
			}
			continue
		}
		// mark: a compaction at the current committed revision
		if err := env.Settle(); err != nil {
			return fmt.Errorf("step %d: %v", si, err)
		}
		rev := env.B.GetCurrentRevision()
		sc.Compact(ctx, start, end, rev)
		tEnd := time.Now() // taken AFTER the compaction returned
		markTimes = append(markTimes, tEnd)
		for _, key := range c.Keys {
			live, isLive := env.M.Live(key)
			if !isLive {
				continue
			}
			age := tEnd.Sub(lastChange[key])
			g, err := env.B.Get(ctx, &proto.GetRequest{Key: []byte(key)})
			if err != nil {
				return fmt.Errorf("step %d: Get(%q): %v", si, key, err)
			}
			present := g.Kv != nil
			if present && (!bytes.Equal(g.Kv.Value, live.Val) || g.Kv.Revision != live.Rev) {
				return fmt.Errorf("step %d: after the compaction %q reads %s, model has (%q @%d)", si, key, kvOf(g.Kv), trunc(live.Val), live.Rev)
			}
			raw, err := c17RawState(env, key)
			if err != nil {
				return Inconclusivef("dump: %v", err)
			}
			switch {
			case !isEventKey(key):
				if !present || raw.index == nil || raw.versions == 0 {
					return fmt.Errorf("step %d: expiry removed (part of) %q, which is not an Event record (present=%v index=%v versions=%d, age %v, TTL %v)", si, key, present, raw.index != nil, raw.versions, age, c17TTL)
				}
				if age >= c17TTL {
					lookalikeOld = true
				}
			case age < c17TTL:
				if !present || raw.index == nil || raw.versions == 0 {
					return fmt.Errorf("step %d: Event %q was removed (present=%v index=%v versions=%d) although its newest change is only %v old (TTL %v)", si, key, present, raw.index != nil, raw.versions, age, c17TTL)
				}
				youngSurvived = true
			default:
				// old enough: fully present or fully gone
				if present {
					if raw.index == nil || raw.versions == 0 {
						return fmt.Errorf("step %d: Event %q still reads as present but its records are partly gone (index=%v versions=%d)", si, key, raw.index != nil, raw.versions)
					}
				} else {
					if raw.index != nil || raw.live != 0 {
						return fmt.Errorf("step %d: expired Event %q reads as absent but records remain (index=%v versions with a value=%d): index and versions must go together", si, key, raw.index != nil, raw.live)
					}
					// the model forgets the key without any event
					delete(env.M.Keys, key)
					expired[key] = true
					expiredSomething = true
				}
			}
		}
	}
	// every key that is present accepts an update with its current revision; expired keys can be created again
	for i, key := range c.Keys {
		if expired[key] {
			if _, err := env.DoWrite(WOp{Kind: "create", K: i}); err != nil {
				return fmt.Errorf("re-creating the expired Event %q: %v", key, err)
			}
			continue
		}
		if _, isLive := env.M.Live(key); isLive {
			if _, err := env.DoWrite(WOp{Kind: "update", K: i, Exp: "ok"}); err != nil {
				return fmt.Errorf("final update of %q: %v", key, err)
			}
		}
	}
	// no watch event is produced by expiry: the stream equals the client writes
	fk := Prefix + "/~fence"
	fr, err := env.B.Create(ctx, &proto.CreateRequest{Key: []byte(fk), Value: []byte("f")})
	if err != nil || !fr.Succeeded {
		return fmt.Errorf("fence: %v", err)
	}
	var got []*proto.Event
	deadline := time.After(15 * time.Second)
	for done := false; !done; {
		select {
		case evs, ok := <-wch:
			if !ok {
				return fmt.Errorf("watch closed")
			}
			for _, e := range evs {
				if string(e.Kv.Key) == fk {
					done = true
					break
				}
				got = append(got, e)
			}
		case <-deadline:
			return fmt.Errorf("fence event missing")
		}
	}
	want := env.M.EventsFrom(env.Init+1, Prefix+"/")
	if len(got) != len(want) {
		return fmt.Errorf("the watch delivered %d events, the clients made %d successful writes: expiry must not produce events", len(got), len(want))
	}
	for i := range got {
		if got[i].Revision != want[i].Rev || string(got[i].Kv.Key) != want[i].Key {
			return fmt.Errorf("event %d is %s %q @%d, want %s %q @%d", i, got[i].Type, got[i].Kv.Key, got[i].Revision, want[i].Type, want[i].Key, want[i].Rev)
		}
	}
	if raceErr != nil {
		return fmt.Errorf("client update racing with the expiry scan: %v", raceErr)
	}
	if raced {
		st.Label("update-lands-between-expiry-snapshot-and-delete")
	}
	if expiredSomething {
		st.Label("an-event-expired")
	}
	if youngSurvived {
		st.Label("young-event-survived-a-mark")
	}
	if expiredSomething && youngSurvived && lookalikeOld && len(markTimes) >= 2 {
		st.Nontrivial()
	}
	return nil
}

func probeC17Substring() (bool, string) {
	env, err := c17OpenEngine("memkv-nottl")
	if err != nil {
		return false, err.Error()
	}
	defer env.Close()
	keys := []string{Prefix + "/pods/events/mypod", Prefix + "/events/default/e1"}
	env.Keys = keys
	sc := scanner.NewScanner(env.KV, shimCoder, scanner.Config{CompactKey: []byte(Prefix + "/compact_key"), Tombstone: []byte("tombstone"), TTL: c17TTL}, NopMetrics)
	start, end := shimCoder.EncodeObjectKey([]byte(Prefix+"/"), 0), shimCoder.EncodeObjectKey(backend.PrefixEnd([]byte(Prefix+"/")), 0)
	for i := range keys {
		if _, err := env.DoWrite(WOp{Kind: "create", K: i}); err != nil {
			return false, err.Error()
		}
	}
	_ = env.Settle()
	sc.Compact(context.Background(), start, end, env.B.GetCurrentRevision())
	time.Sleep(c17TTL + 20*time.Millisecond)
	sc.Compact(context.Background(), start, end, env.B.GetCurrentRevision())
	g, err := env.B.Get(context.Background(), &proto.GetRequest{Key: []byte(keys[0])})
	if err != nil {
		return false, err.Error()
	}
	if g.Kv == nil {
		return true, fmt.Sprintf("%q (a pod in a namespace called events) was expired together with the Event records", keys[0])
	}
	return false, ""
}

var specC17 = &Spec{
	ID:   "C17",
	Rule: "scanner level: case = 2 Event keys (<prefix>/events/<ns>/<name>), 1..3 look-alike keys and 1 ordinary key, 4..14 steps (writes, or 'marks' = compactions at the current revision) with pauses of 0..60 ms against a TTL of 40 ms, always ending with two marks more than a TTL apart; engines without native TTL (memkv behind a shim reporting no TTL support, TiKV mock). Each write is time-stamped before the call, each mark after it returns, so measured age >= true age. Oracle after every mark: non-Event keys read as the model and keep index + versions; an Event whose newest change has measured age < TTL must be fully present; an older Event is either fully present or fully gone (no index, no version, reads absent); at the end present keys accept an update with their revision, expired ones can be created again, and the watch stream equals the client writes (no event for expiry). Non-trivial = an Event expired, a younger Event survived a mark, a look-alike older than the TTL was kept, with >= 2 marks; distinct = SHA-1 of the case",
	Gen:  genC17,
	New:  func() interface{} { return &c17Case{} },
	Run:  runC17,
	Probes: map[string]func() (bool, string){
		"expiry-matches-events-substring-anywhere": probeC17Substring,
	},
	Assumptions: []string{
		"timing noise can only move a key from 'must survive' to 'either' (write time-stamped before, mark after)",
		"keys containing '/events/' away from the resource position are a recorded finding and excluded from generation",
	},
	Engines: []string{"memkv-nottl", EngTiKV},
}

func TestC17(t *testing.T) { RunProperty(t, specC17) }

// ---------------------------------------------------------------------------------------------------------------
// backend level: real Backend.Create / Compact with the events TTL set to 1 s (hook), engines with and without
// native TTL

// events TTL at backend level: 2 s; engines with native TTL work with one-second granularity (Badger stores the
// expiry as a unix second), so a record may legitimately go up to 1 s early there
const c17BackendTTL = 2 * time.Second
const c17Granularity = time.Second

func genC17Backend(t *rapid.T) interface{} {
	c := &c17Case{Engine: EnvStr("VERIF_ENGINE", EngMem)}
	c.Keys = []string{c17EventKeys[0], c17EventKeys[1], c17LookAlikes[DrawIntn(t, len(c17LookAlikes), "la")], c17Ordinary[0]}
	for i := range c.Keys {
		c.Steps = append(c.Steps, c17Step{W: &WOp{Kind: "create", K: i, V: rapid.IntRange(0, 7).Draw(t, "pv")}})
	}
	c.Steps = append(c.Steps, c17Step{Mark: true})
	if DrawBool(t, 40, "recreate") {
		// an Event deleted and created again before any compaction removes the deletion record
		k := DrawIntn(t, 2, "rk")
		c.Steps = append(c.Steps, c17Step{W: &WOp{Kind: "delete", K: k, Exp: "ok"}}, c17Step{W: &WOp{Kind: "create", K: k, V: 2}})
	}
	leased := DrawBool(t, 45, "leasedWrite")
	if leased {
		// a request that carries a lease of 1..2 s on a key that must never expire (or on an Event: it must still live
		// for the configured TTL); the case lasts long enough for a wrongly applied lease to run out
		c.Steps = append(c.Steps, c17Step{W: &WOp{Kind: "update", K: rapid.IntRange(0, len(c.Keys)-1).Draw(t, "leasedKey"), V: 1, Exp: "ok",
			Lease: rapid.SampledFrom([]int64{1, 1, 2}).Draw(t, "leaseSecs")}})
	}
	if DrawBool(t, 35, "burst") {
		c.Steps = append(c.Steps, c17Step{Mark: true, Burst: rapid.SampledFrom([]int{17, 33, 8, 16, 70}).Draw(t, "nburst")})
		// a change of an Event some time after the burst, compacted at once: it is younger than every mark of the burst
		c.Steps = append(c.Steps, c17Step{Pause: rapid.SampledFrom([]int{600, 300, 1100}).Draw(t, "afterBurst"), W: &WOp{Kind: "update", K: DrawIntn(t, 2, "bkey"), V: 3, Exp: "ok"}})
		c.Steps = append(c.Steps, c17Step{Mark: true})
	}
	n := rapid.IntRange(1, 4).Draw(t, "nsteps")
	for i := 0; i < n; i++ {
		s := c17Step{Pause: rapid.SampledFrom([]int{0, 300, 600, 1100}).Draw(t, "pause")}
		if DrawBool(t, 30, "mark") {
			s.Mark = true
		} else {
			kind := rapid.SampledFrom([]string{"update", "update", "delete", "create"}).Draw(t, "kind")
			s.W = &WOp{Kind: kind, K: DrawIntn(t, 2, "key"), V: rapid.IntRange(0, 7).Draw(t, "v"), Exp: "ok"}
			if kind == "update" && DrawBool(t, 40, "anyKey") {
				s.W.K = DrawIntn(t, len(c.Keys), "key4") // look-alikes and ordinary keys are written too
			}
			if kind != "delete" {
				// requests may carry a lease (kube-apiserver attaches one to Events); it must not make anything expire
				s.W.Lease = rapid.SampledFrom([]int64{0, 0, 1, 1, 2}).Draw(t, "lease")
			}
		}
		c.Steps = append(c.Steps, s)
	}
	plast := rapid.SampledFrom([]int{600, 1500, 2300}).Draw(t, "plast")
	if leased && plast < 1500 {
		plast = 1500
	}
	c.Steps = append(c.Steps, c17Step{Mark: true, Pause: plast})
	c.Steps = append(c.Steps, c17Step{Mark: true, Pause: rapid.SampledFrom([]int{0, 300}).Draw(t, "plast2")})
	return c
}

func runC17Backend(ci interface{}, st *CaseStats) error {
	c := ci.(*c17Case)
	backend.SetEventsTTLForVerif(2)
	defer backend.SetEventsTTLForVerif(3600)
	env, err := c17OpenEngine(c.Engine)
	if err != nil {
		return Inconclusivef("engine: %v", err)
	}
	defer env.Close()
	env.Keys = c.Keys
	st.Label("engine:" + c.Engine)
	ctx := context.Background()
	lastChange := map[string]time.Time{}
	expired := map[string]bool{}
	expiredSomething, youngSurvived := false, false
	check := func(si int, now time.Time) error {
		for _, key := range c.Keys {
			live, isLive := env.M.Live(key)
			if !isLive || expired[key] {
				continue
			}
			age := now.Sub(lastChange[key])
			g, err := env.B.Get(ctx, &proto.GetRequest{Key: []byte(key)})
			if err != nil {
				return fmt.Errorf("step %d: Get(%q): %v", si, key, err)
			}
			present := g.Kv != nil
			if present && (!bytes.Equal(g.Kv.Value, live.Val) || g.Kv.Revision != live.Rev) {
				return fmt.Errorf("step %d: %q reads %s, model has (%q @%d)", si, key, kvOf(g.Kv), trunc(live.Val), live.Rev)
			}
			raw, err := c17RawState(env, key)
			if err != nil {
				return Inconclusivef("dump: %v", err)
			}
			latestRecord := false // is the newest version record still there?
			if all, derr := DumpAll(env.Eng.KV); derr == nil {
				for _, rec := range all {
					if bytes.Equal(rec.Key, shimCoder.EncodeObjectKey([]byte(key), live.Rev)) {
						latestRecord = true
					}
				}
			}
			switch {
			case !isEventKey(key):
				if !present || raw.index == nil || !latestRecord {
					return fmt.Errorf("step %d: expiry removed (part of) %q, which is not an Event record (present=%v index=%v newest version=%v, age %v)", si, key, present, raw.index != nil, latestRecord, age)
				}
			case age >= c17BackendTTL-c17Granularity && age < c17BackendTTL && !strings.Contains(c.Engine, "nottl") && c.Engine != EngTiKV:
				// within the engine's granularity of the TTL: either state
			case age < c17BackendTTL:
				if !present || raw.index == nil || !latestRecord {
					return fmt.Errorf("step %d: Event %q lost records (reads present=%v, index record=%v, newest version record=%v) although its newest change is only %v old (TTL %v)", si, key, present, raw.index != nil, latestRecord, age.Round(time.Millisecond), c17BackendTTL)
				}
				youngSurvived = true
			default:
				if present {
					if raw.index == nil || !latestRecord {
						// the read and the raw scan are two looks: a native expiry may fall between them. Look again.
						time.Sleep(20 * time.Millisecond)
						g2, _ := env.B.Get(ctx, &proto.GetRequest{Key: []byte(key)})
						raw2, _ := c17RawState(env, key)
						if g2.GetKv() != nil && raw2.index == nil {
							return fmt.Errorf("step %d: Event %q reads as present but its records are partly gone (index=%v newest version=%v, age %v)", si, key, raw.index != nil, latestRecord, age.Round(time.Millisecond))
						}
						if g2.GetKv() == nil {
							delete(env.M.Keys, key)
							expired[key] = true
							expiredSomething = true
						}
					}
				} else {
					// engines with native TTL expire records one by one: allow a moment, then require all gone
					if raw.index != nil || raw.live != 0 {
						time.Sleep(1200 * time.Millisecond)
						raw, _ = c17RawState(env, key)
						g2, _ := env.B.Get(ctx, &proto.GetRequest{Key: []byte(key)})
						if g2.GetKv() == nil && (raw.index != nil || raw.live != 0) {
							// engines with native TTL drop a key's records one by one, but all of them carry the same
							// expiry: more than a second later nothing of an expired Event may be left
							return fmt.Errorf("step %d: expired Event %q reads as absent but records remain (index=%v versions with a value=%d): index and versions must go together", si, key, raw.index != nil, raw.live)
						}
					}
					delete(env.M.Keys, key)
					expired[key] = true
					expiredSomething = true
				}
			}
		}
		return nil
	}
	// on engines with native TTL a record can expire between the harness's look and its next write: a write on an
	// Event that is old enough to expire is retried once after a fresh look
	writeTolerant := func(si int, op WOp) (*WriteRes, error) {
		key := c.Keys[op.K%len(c.Keys)]
		snapshot := *env.M
		_ = snapshot
		res, err := env.DoWrite(op)
		if err == nil || !isEventKey(key) || time.Since(lastChange[key]) < c17BackendTTL-c17Granularity {
			return res, err
		}
		g, gerr := env.B.Get(ctx, &proto.GetRequest{Key: []byte(key)})
		if gerr != nil || g.Kv != nil {
			return res, err
		}
		st.Label("expired-between-look-and-write")
		delete(env.M.Keys, key)
		expired[key] = true
		return env.DoWrite(WOp{Kind: "create", K: op.K, V: op.V, Lease: op.Lease})
	}
	for si, s := range c.Steps {
		if s.Pause > 0 {
			time.Sleep(time.Duration(s.Pause) * time.Millisecond)
		}
		if s.W != nil {
			key := c.Keys[s.W.K%len(c.Keys)]
			op := *s.W
			_, isLive := env.M.Live(key)
			if expired[key] || !isLive {
				op = WOp{Kind: "create", K: s.W.K, V: s.W.V, Lease: s.W.Lease}
			} else if op.Kind == "create" {
				op = WOp{Kind: "update", K: s.W.K, V: s.W.V, Exp: "ok", Lease: s.W.Lease}
			}
			// the key may have expired since the last check: look first, so that the model is current
			if err := check(si, time.Now()); err != nil {
				return err
			}
			if expired[key] {
				op = WOp{Kind: "create", K: s.W.K, V: s.W.V, Lease: s.W.Lease}
			}
			t0 := time.Now()
			res, err := writeTolerant(si, op)
			if err != nil {
				return fmt.Errorf("step %d: %v", si, err)
			}
			if res.Outcome == "ok" {
				lastChange[key] = t0
				expired[key] = false
			}
			continue
		}
		if err := env.Settle(); err != nil {
			return err
		}
		for b := 1; b < s.Burst; b++ {
			// every compaction of the burst needs a revision of its own to be recorded: an ordinary key changes
			if _, err := env.DoWrite(WOp{Kind: "update", K: len(c.Keys) - 1, V: 6, Exp: "ok"}); err != nil {
				return fmt.Errorf("step %d (burst %d): %v", si, b, err)
			}
			if err := env.Settle(); err != nil {
				return err
			}
			if _, err := env.B.Compact(ctx, 0); err != nil {
				return fmt.Errorf("step %d: compact %d of a burst: %v", si, b, err)
			}
		}
		if s.Burst > 0 {
			st.Labelf("compaction-burst:%d", s.Burst)
		}
		if _, err := env.B.Compact(ctx, 0); err != nil {
			return fmt.Errorf("step %d: compact: %v", si, err)
		}
		if err := check(si, time.Now()); err != nil {
			return err
		}
	}
	for i, key := range c.Keys {
		if err := check(len(c.Steps), time.Now()); err != nil {
			return err
		}
		if expired[key] {
			if _, err := env.DoWrite(WOp{Kind: "create", K: i}); err != nil {
				return fmt.Errorf("re-creating the expired Event %q: %v", key, err)
			}
		} else if _, isLive := env.M.Live(key); isLive {
			if _, err := writeTolerant(len(c.Steps), WOp{Kind: "update", K: i, Exp: "ok"}); err != nil {
				return fmt.Errorf("final update of %q (present per reads): %v", key, err)
			}
		}
	}
	if expiredSomething {
		st.Label("an-event-expired")
	}
	if youngSurvived {
		st.Label("young-event-survived")
	}
	if expiredSomething && youngSurvived {
		st.Nontrivial()
	}
	return nil
}

var specC17Backend = &Spec{
	ID:      "C17",
	Rule:    "backend level: real Backend.Create/Update/Delete/Compact with the events TTL set to 2 s (hook; engines with native TTL get 1 s of granularity tolerance) on engines with native TTL (memkv, Badger) and without (memkv behind a no-TTL shim, TiKV mock); 2 Event keys, a look-alike and an ordinary key are created, then (35%) a burst of 8..70 compactions back to back followed by a change of an Event, then 1..4 writes on the Event keys and compactions with pauses of 0..2.3 s. Oracle as at scanner level (young Events fully present: reads, index record and newest version record; old ones fully present or gone; non-Events untouched; final update / re-create succeeds). Non-trivial = some Event expired and a younger one was verified intact; distinct = SHA-1 of the case",
	Gen:     genC17Backend,
	New:     func() interface{} { return &c17Case{} },
	Run:     runC17Backend,
	Engines: []string{EngMem, EngBadger, "memkv-nottl", EngTiKV},
}

func TestC17Backend(t *testing.T) { RunProperty(t, specC17Backend) }
