package props

// C20, metric emission under concurrency: request goroutines emit the same metric at the same moment; on a node that
// has just started, several of them can be the first to emit a given metric name. Emission must never panic.

import (
	"fmt"
	"os"
	"sync"
	"sync/atomic"
	"testing"

	"pgregory.net/rapid"

	"github.com/kubewharf/kubebrain/pkg/metrics"
)

type c20EmitCase struct {
	Names      int    // fresh metric names in this case
	Goroutines int    // goroutines that emit each of them for the first time at the same instant
	Kind       string // counter | gauge | histogram | mixed
	Labels     int    // label names per metric
}

var c20EmitSeq int64

func genC20Emit(t *rapid.T) interface{} {
	return &c20EmitCase{Names: rapid.IntRange(1, 12).Draw(t, "names"), Goroutines: rapid.IntRange(2, 16).Draw(t, "goroutines"),
		Kind: rapid.SampledFrom([]string{"counter", "gauge", "histogram", "mixed"}).Draw(t, "kind"), Labels: rapid.IntRange(0, 3).Draw(t, "labels")}
}

func runC20Emit(ci interface{}, st *CaseStats) error {
	c := ci.(*c20EmitCase)
	rec := NewMetricsRecorder()
	base := atomic.AddInt64(&c20EmitSeq, 1)
	for n := 0; n < c.Names; n++ {
		// a name nobody has emitted in this process yet
		name := fmt.Sprintf("verif.cold.p%d.c%d.n%d", os.Getpid(), base, n)
		kind := c.Kind
		if kind == "mixed" {
			kind = []string{"counter", "gauge", "histogram"}[n%3]
		}
		var tags []metrics.T
		for l := 0; l < c.Labels; l++ {
			tags = append(tags, metrics.Tag(fmt.Sprintf("l%d", l), "v"))
		}
		start := make(chan struct{})
		var wg sync.WaitGroup
		errs := make([]error, c.Goroutines)
		for g := 0; g < c.Goroutines; g++ {
			wg.Add(1)
			go func(g int) {
				defer wg.Done()
				<-start
				switch kind {
				case "counter":
					errs[g] = rec.EmitCounter(name, 1, tags...)
				case "gauge":
					errs[g] = rec.EmitGauge(name, g, tags...)
				default:
					errs[g] = rec.EmitHistogram(name, 0.5, tags...)
				}
			}(g)
		}
		close(start)
		wg.Wait()
		if probs := rec.Problems(); len(probs) > 0 {
			return fmt.Errorf("%d goroutines emitting %s %q for the first time at the same instant: %s", c.Goroutines, kind, name, probs[0].Detail)
		}
		for g, e := range errs {
			if e != nil {
				return fmt.Errorf("%d goroutines emitting %s %q for the first time at the same instant: goroutine %d got error %v", c.Goroutines, kind, name, g, e)
			}
		}
	}
	if c.Goroutines >= 4 {
		st.Nontrivial()
	}
	return nil
}

var specC20Emit = &Spec{
	ID:      "C20",
	Rule:    "emission mode: case = 1..12 metric names never emitted in this process before x 2..16 goroutines that emit each of them (counter / gauge / histogram, 0..3 labels) at the same instant through the process-wide real Prometheus client. Oracle: no emission panics (recovered and recorded by the harness's recorder) or returns an error. Non-trivial = at least 4 goroutines; distinct = SHA-1 of the case",
	Gen:     genC20Emit,
	New:     func() interface{} { return &c20EmitCase{} },
	Run:     runC20Emit,
	Engines: []string{"real Prometheus client"},
}

func TestC20Emit(t *testing.T) { RunProperty(t, specC20Emit) }
