package props

import (
	"bytes"
	"errors"
	"fmt"
	"sync"
	"testing"
	"time"

	"pgregory.net/rapid"

	proto "github.com/kubewharf/kubebrain-client/api/v2rpc"

	"github.com/kubewharf/kubebrain/pkg/backend"
	"github.com/kubewharf/kubebrain/pkg/storage"
)

// C09 — indeterminate storage outcomes are repaired, never mis-reported (fault enumeration)

type c09Step struct {
	W     *WOp   `json:"w,omitempty"`
	Fault string `json:"fault,omitempty"` // applied | notapplied : unknown-outcome answer on this write's storage commit
	// FaultAt: which storage commit of the request is faulted (0 = first; 1 = second, which exists for a create that
	// takes over a deletion record)
	FaultAt int  `json:"fault_at,omitempty"`
	Wait    bool `json:"wait,omitempty"` // wait until the repair queue is empty
	// RetryOnce runs one round of the repair loop (it stops at the first entry whose repair fails)
	RetryOnce bool `json:"retry_once,omitempty"`
	Compact   bool `json:"compact,omitempty"`
}

type c09Case struct {
	Engine string
	Keys   []string
	Steps  []c09Step
	// RepairFault: fault on the first repair write: "" | applied | notapplied | error
	RepairFault string `json:"repair_fault,omitempty"`
	// Enumerate: ignore the Fault fields and enumerate every single-fault placement x variant over the writes
	Enumerate bool `json:"enumerate,omitempty"`
	// Race: a client write on the same key performed between the repair's read and its rewrite commit
	Race string `json:"race,omitempty"` // "" | update | delete
	// Timed: the real retry loop fires by its timers (20 ms / 4 ms); otherwise the harness triggers the repair
	// step itself at Wait steps (retry interval 0, loop ticker 1 h), which makes histories deterministic
	Timed bool `json:"timed,omitempty"`
}

func genC09(t *rapid.T) interface{} {
	c := &c09Case{Engine: EnvStr("VERIF_ENGINE", EngMem), Timed: EnvStr("VERIF_TIMED", "") == "1"}
	nk := rapid.IntRange(1, 3).Draw(t, "nkeys")
	perm := rapid.Permutation(KeyFamilies[:5]).Draw(t, "keys")
	c.Keys = append([]string{}, perm[:nk]...)
	nw := rapid.IntRange(2, 12).Draw(t, "nwrites")
	c.Enumerate = nw <= 6 && DrawBool(t, 50, "enumerate")
	faults := 0
	for i := 0; i < nw; i++ {
		op := genWOp(t, nk)
		if op.Kind != "create" {
			op.Exp = rapid.SampledFrom([]string{"ok", "ok", "ok", "ok", "stale", "zero"}).Draw(t, "exp")
		}
		s := c09Step{W: op}
		if !c.Enumerate && faults < 2 && DrawBool(t, 30, "fault") {
			s.Fault = rapid.SampledFrom([]string{"applied", "applied", "notapplied"}).Draw(t, "variant")
			if op.Kind == "create" && DrawBool(t, 50, "secondCommit") {
				s.FaultAt = 1
			}
			faults++
		}
		c.Steps = append(c.Steps, s)
		if c.Timed && (s.Fault != "" || c.Enumerate) {
			// with real timers the repair may fire at any moment: nothing else runs until it has
			c.Steps = append(c.Steps, c09Step{Wait: true})
			continue
		}
		if DrawBool(t, 15, "wait") {
			c.Steps = append(c.Steps, c09Step{Wait: true})
		}
		if !c.Timed && DrawBool(t, 12, "retryOnce") {
			c.Steps = append(c.Steps, c09Step{RetryOnce: true})
		}
		if DrawBool(t, 15, "compact") {
			c.Steps = append(c.Steps, c09Step{Compact: true})
		}
	}
	c.RepairFault = rapid.SampledFrom([]string{"", "", "", "applied", "notapplied", "error"}).Draw(t, "repairFault")
	if !c.Timed && !c.Enumerate && DrawBool(t, 15, "scenario") {
		// two unknown-outcome writes pending (the older one a write that landed), the older one's repair fails, one
		// repair round, then a compaction while the younger entry is still queued, then more history
		k := DrawIntn(t, nk, "skey")
		first := rapid.SampledFrom([]string{"delete", "delete", "update"}).Draw(t, "sfirst")
		pre := []c09Step{{W: &WOp{Kind: "create", K: k}}, {Wait: true},
			{W: &WOp{Kind: first, K: k, Exp: "ok"}, Fault: "applied"},
			{W: &WOp{Kind: "create", K: (k + 1) % nk, V: 1}, Fault: rapid.SampledFrom([]string{"applied", "notapplied"}).Draw(t, "ssecond")},
			{RetryOnce: true}, {Compact: true}}
		c.Steps = append(pre, c.Steps...)
		for i := range c.Steps[len(pre):] {
			c.Steps[len(pre)+i].Fault = ""
		}
		c.RepairFault = rapid.SampledFrom([]string{"error", "notapplied"}).Draw(t, "srepair")
		c.Race = ""
	}
	if !c.Timed {
		c.Race = rapid.SampledFrom([]string{"", "", "update", "delete"}).Draw(t, "race")
	}
	return c
}

type c09Pending struct {
	key  string
	rev  uint64 // revision of the landed, unacknowledged write
	tomb bool
	val  []byte
}

// c09Exec runs one fault assignment (faults[i] for the i-th write step; "" = none)
type c09F struct {
	variant string
	at      int
}

func c09Exec(c *c09Case, faults map[int]c09F, st *CaseStats) (rewrites int, repairFaulted bool, err error) {
	if c.Timed {
		backend.SetRetryIntervalsForVerif(20*time.Millisecond, 4*time.Millisecond)
	} else {
		// repair rounds are triggered by the harness; the interval is small but not zero, so that an entry which is
		// (re-)queued during a round waits for the next round, as it does with the production interval
		backend.SetRetryIntervalsForVerif(time.Millisecond, time.Hour)
	}
	keys := make([]string, len(c.Keys))
	for i, k := range c.Keys {
		keys[i] = FullKey(k)
	}
	env, err := NewSeqEnv(SeqOpts{Engine: c.Engine, Keys: keys, UseShim: true, Backend: BackendOpts{CacheSize: 1024}})
	if err != nil {
		return 0, false, Inconclusivef("engine: %v", err)
	}
	defer env.Close()
	// client requests carry a client id; the background repair does not, which is how the shim tells them apart
	ctx := ClientCtx(0)
	env.Ctx = ctx
	shim := env.Shim
	var mu sync.Mutex
	armed := ""             // variant for the armed client commit
	armedAt := 0            // which commit of the request (counted from arming)
	var unresolved []uint64 // revisions of unknown-outcome commits not known to be resolved (harness bookkeeping)
	var armedRev uint64     // revision stamped on the faulted commit
	var maxRevSeen uint64   // highest revision any commit (client or repair) carried so far
	armedApplied := false
	answeredUnknown := false // the engine really answered 'outcome unknown' to the armed commit
	repairArmed := c.RepairFault
	repairCommits := 0
	raceArmed := c.Race
	raced := false
	var raceErr error
	shim.OnCommit = func(ci *CommitInfo) Decision {
		mu.Lock()
		defer mu.Unlock()
		if ci.Rev == 0 {
			return Pass // compaction record etc.
		}
		if ci.Rev > maxRevSeen {
			maxRevSeen = ci.Rev
		}
		if ci.Client < 0 {
			// a commit without a client: the background repair (rewrite) of an unknown-outcome write
			repairCommits++
			if raceArmed != "" && !c.Timed {
				// a client changes the key between the repair's read and its commit: the rewrite must give way
				kind := raceArmed
				raceArmed = ""
				ki := -1
				for i, k := range keys {
					if k == string(ci.RawKey) {
						ki = i
					}
				}
				if ki >= 0 {
					mu.Unlock()
					_, rerr := env.DoWrite(WOp{Kind: kind, K: ki, Exp: "ok"})
					mu.Lock()
					raced = true
					if rerr != nil && raceErr == nil {
						raceErr = rerr
					}
				}
			}
			if repairArmed != "" {
				v := repairArmed
				repairArmed = ""
				repairFaulted = true
				switch v {
				case "applied":
					return UncertainApplied
				case "notapplied":
					return UncertainNotApplied
				default:
					return FailNoApply
				}
			}
			return Pass
		}
		if armed != "" && armedAt > 0 {
			armedAt--
			return Pass
		}
		if armed != "" {
			v := armed
			armed = ""
			armedRev = ci.Rev
			if v == "applied" {
				armedApplied = true
				return UncertainApplied
			}
			return UncertainNotApplied
		}
		return Pass
	}
	// what every commit was told to do, and which keys hold a write that landed with an unknown outcome and has not been
	// followed by a definitely successful commit on the same key (the harness's own, exact view of "unresolved")
	decisions := map[int]Decision{}
	landedOpen := map[string]uint64{}
	innerOnCommit := shim.OnCommit
	shim.OnCommit = func(ci *CommitInfo) Decision {
		d := innerOnCommit(ci)
		mu.Lock()
		decisions[ci.Seq] = d
		mu.Unlock()
		return d
	}
	shim.AfterCommit = func(ci *CommitInfo, err error) {
		mu.Lock()
		defer mu.Unlock()
		if ci.Rev != 0 && len(ci.RawKey) > 0 {
			switch {
			case err == nil:
				delete(landedOpen, string(ci.RawKey))
			case errors.Is(err, storage.ErrUncertainResult) && decisions[ci.Seq] == UncertainApplied:
				landedOpen[string(ci.RawKey)] = ci.Rev
			}
		}
		// UncertainApplied on a batch whose conditions do not hold is a plain condition failure, nothing landed
		if ci.Rev == armedRev && ci.Client >= 0 {
			if errors.Is(err, storage.ErrUncertainResult) {
				answeredUnknown = true
			} else {
				armedApplied = false
			}
		}
	}
	// snapshot + watch for the convergence relation
	end := backend.PrefixEnd([]byte(Prefix + "/"))
	l1, err := env.B.List(ctx, &proto.RangeRequest{Key: []byte(Prefix + "/"), End: end})
	if err != nil {
		return 0, false, fmt.Errorf("first list: %v", err)
	}
	r1 := l1.Header.Revision
	wch, err := env.B.Watch(ctx, Prefix+"/", r1+1)
	if err != nil {
		return 0, false, fmt.Errorf("watch: %v", err)
	}
	var pendings []*c09Pending
	// reconcile the model with repairs that have happened so far (rewrites move a landed write to a fresh revision)
	reconcile := func() error {
		for _, p := range pendings {
			latest, ok := env.M.Latest(p.key)
			if !ok || latest.Rev != p.rev {
				continue // superseded by a later acknowledged write: nothing to repair
			}
			g, err := env.B.Get(ctx, &proto.GetRequest{Key: []byte(p.key)})
			if err != nil {
				return fmt.Errorf("get %q after repair: %v", p.key, err)
			}
			if p.tomb {
				if g.Kv != nil {
					return fmt.Errorf("a delete of %q landed at revision %d (outcome unknown to the client) but after the repair the key reads %s", p.key, p.rev, kvOf(g.Kv))
				}
				// the deletion was rewritten at a fresh revision (unknown here); a later create decides it
				continue
			}
			if g.Kv == nil || !bytes.Equal(g.Kv.Value, p.val) {
				return fmt.Errorf("a write of %q landed at revision %d (outcome unknown to the client) but after the repair the key reads %s, want value %q", p.key, p.rev, kvOf(g.Kv), trunc(p.val))
			}
			if g.Kv.Revision < p.rev {
				return fmt.Errorf("after the repair %q has revision %d, older than the landed write %d", p.key, g.Kv.Revision, p.rev)
			}
			if g.Kv.Revision > p.rev {
				rewrites++
				env.M.Keys[p.key] = append(env.M.Keys[p.key], MVersion{Rev: g.Kv.Revision, Val: cp(p.val)})
				if g.Kv.Revision > env.LastRev {
					env.LastRev = g.Kv.Revision
				}
				p.rev = g.Kv.Revision // a faulted rewrite may be rewritten once more
			}
		}
		return nil
	}
	// settleAll: an unknown-outcome write (a client's or a repair's own rewrite) is queued when the sequencer consumes
	// its revision; wait until it has consumed every revision a commit has carried so far, only then is the queue's
	// length meaningful
	settleAll := func() error {
		if err := env.Settle(); err != nil {
			return err
		}
		mu.Lock()
		mx := maxRevSeen
		mu.Unlock()
		if !WaitCommitted(env.B, mx, 10*time.Second) {
			return fmt.Errorf("read revision stuck at %d, a commit carried revision %d", env.B.GetCurrentRevision(), mx)
		}
		return nil
	}
	// listAt reads the whole prefix at a revision that has been reported readable; "" when the read is refused
	listAt := func(rev uint64) string {
		l, err := env.B.List(ctx, &proto.RangeRequest{Key: []byte(Prefix + "/"), End: end, Revision: rev})
		if err != nil {
			return ""
		}
		return fmtKVs(l.Kvs)
	}
	var waitDrain func() error
	drain := func() error { return nil }
	waitDrain = func() error {
		// a read at a revision that is already readable must give the same answer after the repair has run
		if err := settleAll(); err != nil {
			return err
		}
		rev := env.B.GetCurrentRevision()
		before := ""
		if backend.RetryQueueLenForVerif(env.B) > 0 {
			before = listAt(rev)
		}
		if err := drain(); err != nil {
			return err
		}
		if before != "" {
			if after := listAt(rev); after != "" && after != before {
				return fmt.Errorf("a read at revision %d answered %s while an unknown-outcome write was waiting for its repair and %s after the repair: a read at a revision already reported readable must not change", rev, before, after)
			}
			st.Label("historic-read-repeated-across-a-repair")
		}
		return nil
	}
	drain = func() error {
		deadline := time.Now().Add(10 * time.Second)
		if err := settleAll(); err != nil {
			return err
		}
		if !c.Timed {
			// a faulted repair write re-enqueues itself: repeat until the queue is empty
			for i := 0; i < 8 && backend.RetryQueueLenForVerif(env.B) > 0; i++ {
				time.Sleep(1500 * time.Microsecond) // everything queued so far is due
				backend.RetryNowForVerif(env.B)
				time.Sleep(200 * time.Microsecond)
				if err := settleAll(); err != nil {
					return err
				}
			}
		}
		for {
			if err := settleAll(); err != nil {
				return err
			}
			if backend.RetryQueueLenForVerif(env.B) == 0 {
				break
			}
			if time.Now().After(deadline) {
				return fmt.Errorf("the repair queue did not drain within 10s (%d entries, oldest revision %d)", backend.RetryQueueLenForVerif(env.B), backend.RetryMinRevisionForVerif(env.B))
			}
			time.Sleep(time.Millisecond)
		}
		time.Sleep(2 * time.Millisecond) // the rewrite's own outcome is reported right after the pop
		if err := reconcile(); err != nil {
			return err
		}
		pendings = nil
		unresolved = nil
		return nil
	}
	wi := 0
	for si, s := range c.Steps {
		switch {
		case s.RetryOnce:
			if c.Timed {
				continue
			}
			if err := settleAll(); err != nil {
				return rewrites, repairFaulted, fmt.Errorf("step %d: %v", si, err)
			}
			before := backend.RetryQueueLenForVerif(env.B)
			time.Sleep(1500 * time.Microsecond) // everything queued so far is due
			backend.RetryNowForVerif(env.B)
			time.Sleep(200 * time.Microsecond)
			if err := settleAll(); err != nil {
				return rewrites, repairFaulted, fmt.Errorf("step %d: %v", si, err)
			}
			after := backend.RetryQueueLenForVerif(env.B)
			switch {
			case after == 0:
				// everything was repaired or dropped: reconcile as a full wait does
				if err := waitDrain(); err != nil {
					return rewrites, repairFaulted, fmt.Errorf("step %d: %v", si, err)
				}
			default:
				_ = before
				unresolved = nil // a repair round ran: the harness can no longer tell which entries remain queued
			}
			if after != 0 {
				if err := reconcile(); err != nil {
					return rewrites, repairFaulted, fmt.Errorf("step %d: %v", si, err)
				}
			}
			st.Label("retry-once")
		case s.Wait:
			if err := waitDrain(); err != nil {
				return rewrites, repairFaulted, fmt.Errorf("step %d: %v", si, err)
			}
		case s.Compact:
			if err := settleAll(); err != nil {
				return rewrites, repairFaulted, fmt.Errorf("step %d: %v", si, err)
			}
			minBefore := backend.RetryMinRevisionForVerif(env.B)
			resp, err := env.B.Compact(ctx, 0)
			if err != nil {
				return rewrites, repairFaulted, fmt.Errorf("step %d: compact: %v", si, err)
			}
			// the harness's own view of what is unresolved (independent of the queue's idea of its head)
			if !c.Timed && len(unresolved) > 0 {
				oldest := unresolved[0]
				for _, u := range unresolved {
					if u < oldest {
						oldest = u
					}
				}
				if resp.Header.Revision >= oldest {
					return rewrites, repairFaulted, fmt.Errorf("step %d: compaction advanced to %d although the unknown-outcome write stamped %d has not been resolved (unresolved: %v)", si, resp.Header.Revision, oldest, unresolved)
				}
				st.Label("compact-while-unresolved")
			}
			mu.Lock()
			for k, u := range landedOpen {
				if resp.Header.Revision >= u {
					mu.Unlock()
					return rewrites, repairFaulted, fmt.Errorf("step %d: compaction advanced to %d although the write on %q that landed with an unknown outcome at revision %d has neither been repaired nor superseded (its record may be compacted away before its event is emitted)", si, resp.Header.Revision, k, u)
				}
			}
			if len(landedOpen) > 0 {
				st.Label("compact-while-a-landed-write-is-unrepaired")
			}
			mu.Unlock()
			minAfter := backend.RetryMinRevisionForVerif(env.B)
			if minBefore != 0 && minBefore == minAfter {
				st.Label("compact-while-queue-nonempty")
				if resp.Header.Revision >= minBefore {
					return rewrites, repairFaulted, fmt.Errorf("step %d: compaction advanced to %d although the write at revision %d is still unresolved", si, resp.Header.Revision, minBefore)
				}
			}
		case s.W != nil:
			f := faults[wi]
			variant := f.variant
			wi++
			if variant == "" {
				if _, err := env.DoWrite(*s.W); err != nil {
					return rewrites, repairFaulted, fmt.Errorf("step %d: %v", si, err)
				}
				continue
			}
			// faulted write: the ordinary executor runs it (so that a fault consumed by a batch whose conditions do
			// not hold, or never reached, is judged as the ordinary outcome it is); an error is tolerated iff the
			// engine really answered 'outcome unknown'
			op := *s.W
			key := keys[op.K%len(keys)]
			val := MakeValue(op.V, env.Attempts+1)
			mu.Lock()
			armed, armedAt, armedRev, armedApplied, answeredUnknown = variant, f.at, 0, false, false
			mu.Unlock()
			env.TolerateErr = func(WOp, error) bool {
				mu.Lock()
				defer mu.Unlock()
				return answeredUnknown
			}
			res, werr := env.DoWrite(op)
			env.TolerateErr = nil
			mu.Lock()
			fired := answeredUnknown
			stamped, landed := armedRev, armedApplied
			armed = ""
			mu.Unlock()
			if werr != nil {
				return rewrites, repairFaulted, fmt.Errorf("step %d (fault %s armed): %v", si, variant, werr)
			}
			if !fired {
				st.Label("fault-not-reached")
				continue
			}
			if res.Outcome != "err" {
				return rewrites, repairFaulted, fmt.Errorf("step %d: the engine answered 'outcome unknown' to %s(%q, exp=%d) but the client got a definite answer (%s) instead of an error", si, op.Kind, key, res.Exp, res.Outcome)
			}
			st.Label("fault:" + variant)
			if f.at > 0 {
				st.Label("fault-on-second-commit-of-a-create")
			}
			unresolved = append(unresolved, stamped)
			if stamped > env.LastRev {
				env.LastRev = stamped
			}
			if landed {
				p := &c09Pending{key: key, rev: stamped}
				switch op.Kind {
				case "delete":
					p.tomb = true
					env.M.Keys[key] = append(env.M.Keys[key], MVersion{Rev: stamped, Tomb: true})
				default:
					p.val = val
					env.M.Keys[key] = append(env.M.Keys[key], MVersion{Rev: stamped, Val: cp(val)})
				}
				pendings = append(pendings, p)
				st.Label("fault-landed")
			}
		}
	}
	if err := waitDrain(); err != nil {
		return rewrites, repairFaulted, err
	}
	mu.Lock()
	rerr, didRace := raceErr, raced
	mu.Unlock()
	if rerr != nil {
		return rewrites, repairFaulted, fmt.Errorf("client write racing with the repair: %v", rerr)
	}
	if didRace {
		st.Label("client-write-between-repair-read-and-commit")
		repairFaulted = true
	}
	// later requests keep flowing; store and watch stream converge
	fk := Prefix + "/~fence"
	fr, err := env.B.Create(ctx, &proto.CreateRequest{Key: []byte(fk), Value: []byte("f")})
	if err != nil || !fr.Succeeded {
		return rewrites, repairFaulted, fmt.Errorf("fence create failed: %v", err)
	}
	if !WaitCommitted(env.B, fr.Header.Revision, 10*time.Second) {
		return rewrites, repairFaulted, fmt.Errorf("stall: the read revision is stuck at %d, a later write got revision %d", env.B.GetCurrentRevision(), fr.Header.Revision)
	}
	var evs []*proto.Event
	saw := false
	to := time.After(15 * time.Second)
	for !saw {
		select {
		case batch, ok := <-wch:
			if !ok {
				return rewrites, repairFaulted, fmt.Errorf("watch closed before the fence")
			}
			for _, e := range batch {
				if string(e.Kv.Key) == fk {
					saw = true
					break
				}
				evs = append(evs, e)
			}
		case <-to:
			return rewrites, repairFaulted, fmt.Errorf("stall: the fence event did not arrive in 15s")
		}
	}
	l2, err := env.B.List(ctx, &proto.RangeRequest{Key: []byte(Prefix + "/"), End: end})
	if err != nil {
		return rewrites, repairFaulted, fmt.Errorf("final list: %v", err)
	}
	// final state == truth (every acknowledged write durable or correctly superseded; landed writes present)
	var kvs []*proto.KeyValue
	for _, kv := range l2.Kvs {
		if string(kv.Key) != fk {
			kvs = append(kvs, kv)
		}
	}
	want, _ := env.M.Range([]byte(Prefix+"/"), end, ^uint64(0), 0)
	if d := sameKVs(kvs, want); d != "" {
		return rewrites, repairFaulted, fmt.Errorf("final state differs from the truth (acknowledged writes + writes that landed with unknown outcome): %s\n got  %s\n want %s", d, fmtKVs(kvs), fmtMKVs(want))
	}
	// replaying the delivered events over the earlier snapshot yields the final state
	if err := c06Judge(l1.Kvs, r1, evs, kvs, l2.Header.Revision, "convergence"); err != nil {
		dbg := fmt.Sprintf("\n  [debug] repair queue now: %d entries (oldest %d); commit attempts:", backend.RetryQueueLenForVerif(env.B), backend.RetryMinRevisionForVerif(env.B))
		if env.Shim != nil {
			for _, a := range env.Shim.Attempts {
				dbg += fmt.Sprintf(" [#%d client %d rev %d]", a.Seq, a.Client, a.Rev)
			}
		}
		return rewrites, repairFaulted, fmt.Errorf("%v%s", err, dbg)
	}
	return rewrites, repairFaulted, nil
}

func runC09(ci interface{}, st *CaseStats) error {
	c := ci.(*c09Case)
	st.Label("engine:" + c.Engine)
	nWrites := 0
	for _, s := range c.Steps {
		if s.W != nil {
			nWrites++
		}
	}
	if !c.Enumerate {
		faults := map[int]c09F{}
		wi := 0
		for _, s := range c.Steps {
			if s.W != nil {
				if s.Fault != "" {
					faults[wi] = c09F{s.Fault, s.FaultAt}
				}
				wi++
			}
		}
		rw, rf, err := c09Exec(c, faults, st)
		if err != nil {
			return err
		}
		st.Count("fault_placements", 1)
		if rw > 0 {
			st.Label("rewrite-happened")
		}
		if rf {
			st.Label("fault-on-repair-write")
		}
		if rw > 0 || rf {
			st.Nontrivial()
		}
		return nil
	}
	// enumerate every single-fault placement x variant
	st.Label("mode:enumerate-single-faults")
	nt := false
	var kinds []string
	for _, s := range c.Steps {
		if s.W != nil {
			kinds = append(kinds, s.W.Kind)
		}
	}
	type place struct {
		p  int
		v  string
		at int
	}
	var places []place
	for p := 0; p < nWrites; p++ {
		for _, v := range []string{"applied", "notapplied"} {
			places = append(places, place{p, v, 0})
			if kinds[p] == "create" {
				places = append(places, place{p, v, 1}) // the second commit of a create over a deletion record
			}
		}
	}
	for _, pl := range places {
		{
			p, v := pl.p, pl.v
			rw, rf, err := c09Exec(c, map[int]c09F{p: {v, pl.at}}, st)
			if err != nil {
				if _, inc := err.(*Inconclusive); inc {
					return err
				}
				return fmt.Errorf("fault %s on write #%d (commit %d): %v", v, p, pl.at, err)
			}
			st.Count("fault_placements", 1)
			if rw > 0 {
				st.Label("rewrite-happened")
			}
			if rf {
				st.Label("fault-on-repair-write")
			}
			if rw > 0 || rf {
				nt = true
			}
		}
	}
	if nt {
		st.Nontrivial()
	}
	return nil
}

var specC09 = &Spec{
	ID:    "C09",
	Level: "fault_enumeration",
	Rule:  "case = 1..3 keys, 2..12 writes with waits (until the repair queue drains) and compactions interleaved, and a fault on the first repair write (none / landed-but-unknown / lost-and-unknown / plain error). Histories with <= 6 writes (half of them) enumerate EVERY single-fault placement x {applied, not applied} of an 'outcome unknown' answer over the writes' storage commits; longer ones carry 0..2 generated faults. Retry/check interval 20 ms / 4 ms (hook). Oracle: the faulted request returns an error; later requests complete and the read revision advances; a compaction issued while the queue is non-empty stays below the oldest queued revision; after the queue drains the final List equals the truth (acknowledged writes + writes the harness knows landed) and snapshot-before + delivered events == final List. Non-trivial = a repair rewrite happened (the landed write was still the key's newest version when the retry fired) or the repair write itself was faulted; distinct = SHA-1 of the case",
	Gen:   genC09,
	New:   func() interface{} { return &c09Case{} },
	Run:   runC09,
	Assumptions: []string{
		"'outcome unknown' is injected at the storage interface (shim) with the harness choosing whether the batch landed; real engine error classification (TiKV error list) is not exercised",
		"a rewritten deletion keeps the key absent; its fresh revision is not asserted",
	},
	Engines: []string{EngMem, EngTiKV, EngBadger},
}

func TestC09(t *testing.T) { RunProperty(t, specC09) }
