package props

// Concurrent history executor under the deterministic scheduler, with the history oracles of C01, C02 and C04.

import (
	"bytes"
	"context"
	"encoding/binary"
	"fmt"
	"math"
	"sort"
	"strings"
	"sync"
	"sync/atomic"
	"time"

	proto "github.com/kubewharf/kubebrain-client/api/v2rpc"
	"go.etcd.io/etcd/api/v3/etcdserverpb"

	"github.com/kubewharf/kubebrain/pkg/backend"
	"github.com/kubewharf/kubebrain/pkg/server/etcd"
	"github.com/kubewharf/kubebrain/pkg/storage"
	"github.com/kubewharf/kubebrain/pkg/verifhook"
)

// ConcFault is a storage fault placed in the concurrent phase
type ConcFault struct {
	Kind string `json:"kind"` // commit | iter
	At   int    `json:"at"`   // index among the calls of that kind in the concurrent phase
}

// ConcCase is a generated concurrent history
type ConcCase struct {
	Engine     string
	Keys       []string
	Prelude    []WOp
	PreCompact bool
	Clients    [][]WOp
	Sched      []int
	Free       bool        `json:"free,omitempty"`      // free-running (no gates)
	PreCommit  bool        `json:"precommit,omitempty"` // also park between a transaction's reads and the engine commit
	Faults     []ConcFault `json:"faults,omitempty"`
	// Compactor adds one more client that compacts at the revision committed when it starts, its storage calls
	// (record update, iterator, every delete) scheduled like everybody else's
	Compactor bool `json:"compactor,omitempty"`
	// API "etcd": the clients' writes go through the etcd-compatible server (the transaction shapes kube-apiserver
	// issues) instead of the native backend calls; answers are translated back (success flag, header revision,
	// key-value of the failure branch)
	API string `json:"api,omitempty"`
	// ReadOwn: every client reads its own successful create/update back at the revision of the answer
	ReadOwn bool `json:"readown,omitempty"`
}

// ConcExpClasses are the expected-revision classes used under concurrency
var ConcExpClasses = []string{"latest", "latest", "latest", "ok", "ok", "mine", "stale", "zero", "future", "far", "max", "half"}

// OpRec is the record of one concurrent request
type OpRec struct {
	Client, Idx             int
	Op                      WOp
	Key                     string
	Exp                     uint64
	FutureClass             bool
	InvTick, RespTick       int64
	InvCommits, RespCommits int
	Outcome                 string // ok | fail | err
	Rev                     uint64 // header revision
	HasKv                   bool
	KvRev                   uint64
	KvVal                   []byte
	Val                     []byte
	Err                     string
	OwnRev                  uint64 // revision stamped on the version record of an attempt that reached storage
	Attempts                int
	Faulted                 bool
	Unknown                 bool // the engine answered 'outcome unknown' to this request's commit
	// read-own-write (ConcCase.ReadOwn): right after a successful create/update the client reads the key at the
	// revision it was answered with — possibly ahead of the node's committed revision while an older write is parked
	DidRead   bool
	ReadHdr   uint64
	ReadHasKv bool
	ReadKvRev uint64
	ReadVal   []byte
	ReadErr   string
	// the same read phrased as a range over exactly that key
	ListHdr   uint64
	ListN     int
	ListKvRev uint64
	ListErr   string
}

func (r *OpRec) String() string {
	return fmt.Sprintf("c%d.%d %s(%s exp=%d[%s]) -> %s rev=%d own=%d kv=%v@%d t=[%d,%d] commits=[%d,%d]", r.Client, r.Idx, r.Op.Kind, r.Key, r.Exp, r.Op.Exp, r.Outcome, r.Rev, r.OwnRev, r.HasKv, r.KvRev, r.InvTick, r.RespTick, r.InvCommits, r.RespCommits)
}

// CommitRec is a successful commit in the order the shim observed
type CommitRec struct {
	Seq    int
	Client int
	RawKey string
	Rev    uint64
	Delete bool
}

// ConcHistory is everything recorded about one execution
type ConcHistory struct {
	Case       *ConcCase
	Env        *SeqEnv
	Ops        []*OpRec
	Commits    []CommitRec // successful commits of the concurrent phase, in order
	PreModel   *Model
	PreLast    uint64
	Baseline   map[string]string // raw store after the prelude
	Trace      []string
	SafetyErr  error
	CompactErr error
	// UnknownFaults: some commit was answered 'outcome unknown' (the repair loop is part of the run)
	UnknownFaults bool
	RepairFaulted bool
	finalState    map[string]keyState
	Events        []*proto.Event
	Overlap       bool
	OutOfOrder    bool
	watch         <-chan []*proto.Event
}

var hookMu sync.Mutex

// RunConc executes a concurrent case; the caller must Close the returned history's Env
func RunConc(c *ConcCase) (*ConcHistory, error) {
	keys := make([]string, len(c.Keys))
	for i, k := range c.Keys {
		keys[i] = FullKey(k)
	}
	for _, f := range c.Faults {
		if strings.HasPrefix(f.Kind, "unknown") {
			// the harness triggers the repair step itself (deterministic), the loop's own ticker stays out of the way
			backend.SetRetryIntervalsForVerif(0, time.Hour)
			defer backend.SetRetryIntervalsForVerif(5*time.Second, time.Second)
		}
	}
	env, err := NewSeqEnv(SeqOpts{Engine: c.Engine, Keys: keys, UseShim: true, Backend: BackendOpts{CacheSize: 1024, Etcd: c.API == "etcd"}})
	if err != nil {
		return nil, Inconclusivef("engine: %v", err)
	}
	var etcdSrv *etcd.RPCServer
	if c.API == "etcd" {
		etcdSrv = etcd.New(env.B, NopMetrics, &ScriptedPeers{Leader: true})
	}
	h := &ConcHistory{Case: c, Env: env}
	for i, op := range c.Prelude {
		if _, err := env.DoWrite(op); err != nil {
			return h, fmt.Errorf("prelude step %d: %v", i, err)
		}
	}
	if err := env.Settle(); err != nil {
		return h, err
	}
	if c.PreCompact {
		if _, err := env.B.Compact(env.Ctx, 0); err != nil {
			return h, fmt.Errorf("prelude compaction: %v", err)
		}
	}
	h.PreModel = env.M
	h.PreLast = env.LastRev
	base, err := DumpAll(env.Eng.KV)
	if err != nil {
		return h, Inconclusivef("dump: %v", err)
	}
	h.Baseline = map[string]string{}
	for _, r := range base {
		h.Baseline[string(r.Key)] = string(r.Val)
	}
	// watch everything from the first revision of the concurrent phase
	wch, err := env.B.Watch(context.Background(), Prefix+"/", h.PreLast+1)
	if err != nil {
		return h, fmt.Errorf("watch from %d refused: %v", h.PreLast+1, err)
	}
	h.watch = wch

	shim := env.Shim
	shim.mu.Lock()
	baseCommit, baseIter := shim.nCommit, shim.nIter
	baseOK := len(shim.Commits)
	shim.mu.Unlock()
	commitFaults, iterFaults := map[int]bool{}, map[int]bool{}
	unknownFaults := map[int]Decision{}
	repairError := false
	for _, f := range c.Faults {
		switch f.Kind {
		case "commit":
			commitFaults[f.At] = true
		case "unknown-applied":
			unknownFaults[f.At] = UncertainApplied
			h.UnknownFaults = true
		case "unknown-lost":
			unknownFaults[f.At] = UncertainNotApplied
			h.UnknownFaults = true
		case "repair-error":
			repairError = true
		default:
			iterFaults[f.At] = true
		}
	}
	var tick int64
	nOps := 0
	for _, cl := range c.Clients {
		nOps += len(cl)
	}
	// per-client current op, for attributing storage attempts
	cur := make([]*OpRec, len(c.Clients))
	var recMu sync.Mutex
	lastMine := make([]map[string]uint64, len(c.Clients))
	for i := range lastMine {
		lastMine[i] = map[string]uint64{}
	}
	// live view of the committed chain heads (what a reader would have observed), fed by AfterCommit
	heads := map[string]uint64{}
	for _, k := range keys {
		if v, ok := env.M.Live(k); ok {
			heads[k] = v.Rev
		}
	}
	okCommits := func() int {
		shim.mu.Lock()
		defer shim.mu.Unlock()
		return len(shim.Commits) - baseOK
	}
	shim.OnCommit = func(ci *CommitInfo) Decision {
		recMu.Lock()
		defer recMu.Unlock()
		if ci.Client >= 0 && ci.Client < len(cur) && cur[ci.Client] != nil {
			r := cur[ci.Client]
			r.Attempts++
			if ci.Rev != 0 {
				r.OwnRev = ci.Rev
			}
			if commitFaults[ci.Seq-baseCommit] {
				r.Faulted = true
				return FailNoApply
			}
			if d, ok := unknownFaults[ci.Seq-baseCommit]; ok {
				r.Faulted = true
				r.Unknown = true
				return d
			}
		}
		if ci.Client < 0 && ci.Rev != 0 && repairError {
			// the background repair's rewrite fails once with a definite storage error
			repairError = false
			h.RepairFaulted = true
			return FailNoApply
		}
		return Pass
	}
	var finishes []uint64
	shim.AfterCommit = func(ci *CommitInfo, err error) {
		if ci.Rev == 0 {
			return
		}
		recMu.Lock()
		defer recMu.Unlock()
		finishes = append(finishes, ci.Rev)
		if err != nil {
			return
		}
		del := false
		for _, op := range ci.Ops {
			if (op.Kind == "cas" || op.Kind == "pine") && len(op.Val) == 9 {
				del = true
			}
		}
		h.Commits = append(h.Commits, CommitRec{Seq: ci.Seq, Client: ci.Client, RawKey: string(ci.RawKey), Rev: ci.Rev, Delete: del})
		if del {
			delete(heads, string(ci.RawKey))
		} else {
			heads[string(ci.RawKey)] = ci.Rev
		}
	}
	shim.OnIter = func(idx int) Decision {
		if iterFaults[idx-baseIter] {
			return FailNoApply
		}
		return Pass
	}
	defer func() {
		shim.AfterCommit, shim.OnIter, shim.Gate = nil, nil, nil
		if !h.UnknownFaults {
			shim.OnCommit = nil // with unknown outcomes pending, the repair fault stays armed until the repair ran
		}
	}()

	sched := NewSched()
	if !c.Free {
		shim.Gate = sched.GateFunc
		if c.PreCommit {
			hookMu.Lock()
			defer hookMu.Unlock()
			verifhook.Set(func(name string, owner interface{}, arg interface{}) {
				if name != "badger.beforeCommit" && name != "tikv.beforeCommit" {
					return
				}
				if ctx, ok := arg.(context.Context); ok {
					if id := ClientOf(ctx); id >= 0 {
						sched.Park(id, "precommit", nil)
					}
				}
			})
			defer verifhook.Set(nil)
		}
	}
	// safety sampling at every scheduler step
	sched.OnStep = func(s *Sched) {
		if h.SafetyErr != nil {
			return
		}
		committed := env.B.GetCurrentRevision()
		recMu.Lock()
		defer recMu.Unlock()
		for id, pd := range s.ParkedDetail() {
			point, _ := pd[0].(string)
			var rev uint64
			if ci, ok := pd[1].(*CommitInfo); ok && ci != nil {
				rev = ci.Rev
			} else if point == "precommit" && id < len(cur) && cur[id] != nil {
				rev = cur[id].OwnRev
			}
			if (point == "commit" || point == "precommit") && rev != 0 && committed >= rev {
				h.SafetyErr = fmt.Errorf("the read revision is %d while client %d's write stamped %d is still waiting at its storage %s", committed, id, rev, point)
			}
		}
	}

	programs := make([]func(ctx context.Context), len(c.Clients))
	for ci := range c.Clients {
		ci := ci
		for oi := range c.Clients[ci] {
			h.Ops = append(h.Ops, &OpRec{Client: ci, Idx: oi, Op: c.Clients[ci][oi]})
		}
	}
	recOf := func(ci, oi int) *OpRec {
		for _, r := range h.Ops {
			if r.Client == ci && r.Idx == oi {
				return r
			}
		}
		return nil
	}
	var valSeq int64
	programs = programs[:0]
	for ci := range c.Clients {
		ci := ci
		programs = append(programs, func(ctx context.Context) {
			for oi, op := range c.Clients[ci] {
				r := recOf(ci, oi)
				key := keys[op.K%len(keys)]
				r.Key = key
				// resolve the expected revision
				recMu.Lock()
				switch op.Exp {
				case "latest":
					r.Exp = heads[key]
					if r.Exp == 0 {
						r.Exp = h.PreLast // something that cannot match
					}
				case "mine":
					r.Exp = lastMine[ci][key]
					if r.Exp == 0 {
						r.Exp = heads[key]
					}
					if r.Exp == 0 {
						r.Exp = h.PreLast
					}
				case "soon":
					// a revision that is about to be handed out inside this phase: a guess that can come true
					r.Exp = h.PreLast + 2 + uint64(op.V)%uint64(nOps+1)
				case "future":
					r.Exp, r.FutureClass = h.PreLast+uint64(nOps)+1, true
				case "far":
					r.Exp, r.FutureClass = h.PreLast+1<<40, true
				case "max":
					r.Exp, r.FutureClass = math.MaxUint64, true
				case "half":
					r.Exp, r.FutureClass = 1<<63, true
				default:
					pre := *env // resolve against the prelude model
					pre.LastRev = h.PreLast
					r.Exp, _ = pre.ResolveExp(op, key)
				}
				cur[ci] = r
				recMu.Unlock()
				if op.Kind == "create" {
					r.Exp = 0
				}
				val := MakeValue(op.V, int(atomic.AddInt64(&valSeq, 1))+1000*(ci+1))
				r.Val = val
				r.InvCommits = okCommits()
				r.InvTick = atomic.AddInt64(&tick, 1)
				var (
					hdr       *proto.ResponseHeader
					succeeded bool
					kv        *proto.KeyValue
					err       error
				)
				if c.API == "etcd" {
					var req *etcdserverpb.TxnRequest
					switch {
					case op.Kind == "create":
						req = txnCreate([]byte(key), val)
					case op.Kind == "update":
						req = txnUpdate([]byte(key), val, int64(r.Exp))
					case r.Exp == 0:
						req = txnUnguardedDelete([]byte(key))
					default:
						req = txnDelete([]byte(key), int64(r.Exp))
					}
					var resp *etcdserverpb.TxnResponse
					resp, err = etcdSrv.Txn(ctx, req)
					if resp != nil {
						succeeded = resp.Succeeded
						if resp.Header != nil {
							hdr = &proto.ResponseHeader{Revision: uint64(resp.Header.Revision)}
						}
						// the failure branch (and the unguarded delete's get) carries the current key-value
						for _, ro := range resp.Responses {
							if rr := ro.GetResponseRange(); rr != nil && len(rr.Kvs) > 0 && (!succeeded || op.Kind == "delete") {
								kv = &proto.KeyValue{Key: rr.Kvs[0].Key, Value: rr.Kvs[0].Value, Revision: uint64(rr.Kvs[0].ModRevision)}
							}
						}
					}
				}
				switch {
				case c.API == "etcd":
					// done above
				case op.Kind == "create":
					var resp *proto.CreateResponse
					resp, err = env.B.Create(ctx, &proto.CreateRequest{Key: []byte(key), Value: val})
					if resp != nil {
						hdr, succeeded = resp.Header, resp.Succeeded
					}
				case op.Kind == "update":
					var resp *proto.UpdateResponse
					resp, err = env.B.Update(ctx, &proto.UpdateRequest{Kv: &proto.KeyValue{Key: []byte(key), Value: val, Revision: r.Exp}})
					if resp != nil {
						hdr, succeeded, kv = resp.Header, resp.Succeeded, resp.Kv
					}
				case op.Kind == "delete":
					var resp *proto.DeleteResponse
					resp, err = env.B.Delete(ctx, &proto.DeleteRequest{Key: []byte(key), Revision: r.Exp})
					if resp != nil {
						hdr, succeeded, kv = resp.Header, resp.Succeeded, resp.Kv
					}
				}
				r.RespTick = atomic.AddInt64(&tick, 1)
				r.RespCommits = okCommits()
				if c.ReadOwn && err == nil && succeeded && hdr != nil && op.Kind != "delete" {
					r.DidRead = true
					if c.API == "etcd" {
						var lr *etcdserverpb.RangeResponse
						lerr := fmt.Errorf("skipped")
						if len(c.Faults) == 0 {
							lr, lerr = etcdSrv.Range(ctx, &etcdserverpb.RangeRequest{Key: []byte(key), RangeEnd: append([]byte(key), 0), Revision: int64(hdr.Revision)})
						}
						if lerr != nil {
							r.ListErr = lerr.Error()
						} else {
							if lr.Header != nil {
								r.ListHdr = uint64(lr.Header.Revision)
							}
							r.ListN = len(lr.Kvs)
							for _, kv := range lr.Kvs {
								if uint64(kv.ModRevision) > r.ListKvRev {
									r.ListKvRev = uint64(kv.ModRevision)
								}
							}
						}
						rr, rerr := etcdSrv.Range(ctx, &etcdserverpb.RangeRequest{Key: []byte(key), Revision: int64(hdr.Revision)})
						if rerr != nil {
							r.ReadErr = rerr.Error()
						} else {
							if rr.Header != nil {
								r.ReadHdr = uint64(rr.Header.Revision)
							}
							if len(rr.Kvs) > 0 {
								r.ReadHasKv, r.ReadKvRev, r.ReadVal = true, uint64(rr.Kvs[0].ModRevision), rr.Kvs[0].Value
							}
						}
					} else {
						// (no range read when storage faults are scheduled: a failing iterator sends the range scan into a
						// back-off of seconds)
						var lr *proto.RangeResponse
						lerr := fmt.Errorf("skipped")
						if len(c.Faults) == 0 {
							lr, lerr = env.B.List(ctx, &proto.RangeRequest{Key: []byte(key), End: append([]byte(key), 0), Revision: hdr.Revision})
						}
						if lerr != nil {
							r.ListErr = lerr.Error()
						} else {
							if lr.Header != nil {
								r.ListHdr = lr.Header.Revision
							}
							r.ListN = len(lr.Kvs)
							for _, kv := range lr.Kvs {
								if kv.Revision > r.ListKvRev {
									r.ListKvRev = kv.Revision
								}
							}
						}
						gr, rerr := env.B.Get(ctx, &proto.GetRequest{Key: []byte(key), Revision: hdr.Revision})
						if rerr != nil {
							r.ReadErr = rerr.Error()
						} else {
							if gr.Header != nil {
								r.ReadHdr = gr.Header.Revision
							}
							if gr.Kv != nil {
								r.ReadHasKv, r.ReadKvRev, r.ReadVal = true, gr.Kv.Revision, gr.Kv.Value
							}
						}
					}
				}
				recMu.Lock()
				cur[ci] = nil
				switch {
				case err != nil:
					r.Outcome, r.Err = "err", err.Error()
				case succeeded:
					r.Outcome = "ok"
				default:
					r.Outcome = "fail"
				}
				if hdr != nil {
					r.Rev = hdr.Revision
				}
				if kv != nil {
					r.HasKv, r.KvRev, r.KvVal = true, kv.Revision, kv.Value
				}
				if r.Outcome == "ok" {
					if op.Kind == "delete" {
						delete(lastMine[ci], key)
					} else {
						lastMine[ci][key] = r.Rev
					}
				}
				recMu.Unlock()
			}
		})
	}
	if c.Compactor {
		cid := len(programs)
		shim.AttributeDeletesTo = cid
		defer func() { shim.AttributeDeletesTo = -1 }()
		programs = append(programs, func(ctx context.Context) {
			if _, err := env.B.Compact(ctx, 0); err != nil {
				recMu.Lock()
				h.CompactErr = err
				recMu.Unlock()
			}
		})
	}
	if c.Free {
		var wg sync.WaitGroup
		for i, p := range programs {
			wg.Add(1)
			go func(i int, p func(ctx context.Context)) {
				defer wg.Done()
				p(ClientCtx(i))
			}(i, p)
		}
		done := make(chan struct{})
		go func() { wg.Wait(); close(done) }()
		select {
		case <-done:
		case <-time.After(60 * time.Second):
			return h, Inconclusivef("free-running clients did not finish in 60s")
		}
	} else {
		if err := sched.Run(programs, c.Sched); err != nil {
			if strings.Contains(err.Error(), "panicked") {
				return h, err
			}
			return h, Inconclusivef("%v", err)
		}
		h.Trace = sched.Trace
	}
	// overlap / out-of-order classification
	for _, a := range h.Ops {
		for _, b := range h.Ops {
			if a == b || a.Key != b.Key {
				continue
			}
			if a.InvTick < b.RespTick && b.InvTick < a.RespTick && (a.Outcome == "ok" || b.Outcome == "ok") {
				h.Overlap = true
			}
		}
	}
	// a storage transaction stamped with a later revision finished before one stamped with an earlier revision
	for i := 1; i < len(finishes); i++ {
		if finishes[i] < finishes[i-1] {
			h.OutOfOrder = true
		}
	}
	return h, nil
}

// keyState is the state of one key at a moment
type keyState struct {
	live bool
	rev  uint64
	val  []byte
}

func (h *ConcHistory) initialState(key string) keyState {
	if v, ok := h.PreModel.Live(key); ok {
		return keyState{live: true, rev: v.Rev, val: v.Val}
	}
	return keyState{}
}

// CheckChain is the C01 oracle (i)-(v)
func (h *ConcHistory) CheckChain() error {
	env := h.Env
	byKey := map[string][]*OpRec{}
	for _, r := range h.Ops {
		if r.Outcome == "ok" {
			byKey[r.Key] = append(byKey[r.Key], r)
		}
	}
	finalState := map[string]keyState{}
	links := map[string]map[uint64]*OpRec{}
	for _, key := range env.Keys {
		st := h.initialState(key)
		succ := byKey[key]
		sort.Slice(succ, func(i, j int) bool { return succ[i].Rev < succ[j].Rev })
		links[key] = map[uint64]*OpRec{}
		for i, r := range succ {
			if i > 0 && succ[i-1].Rev == r.Rev {
				return fmt.Errorf("two successful writes of %q carry the same revision %d: %s / %s", key, r.Rev, succ[i-1], r)
			}
			if r.Rev <= st.rev && st.rev != 0 {
				return fmt.Errorf("successful write %s has a revision not greater than its predecessor's %d", r, st.rev)
			}
			switch {
			case r.Op.Kind == "create" || (r.Op.Kind == "update" && r.Exp == 0):
				if st.live {
					return fmt.Errorf("lost update: %s succeeded although %q was live at revision %d (chain in revision order)", r, key, st.rev)
				}
				st = keyState{live: true, rev: r.Rev, val: r.Val}
			case r.Op.Kind == "update":
				if !st.live || st.rev != r.Exp {
					return fmt.Errorf("lost update: %s succeeded naming revision %d but its predecessor in revision order is live=%v rev=%d", r, r.Exp, st.live, st.rev)
				}
				st = keyState{live: true, rev: r.Rev, val: r.Val}
			case r.Op.Kind == "delete":
				if !st.live || (r.Exp != 0 && st.rev != r.Exp) {
					return fmt.Errorf("lost update: %s succeeded naming revision %d but its predecessor in revision order is live=%v rev=%d", r, r.Exp, st.live, st.rev)
				}
				if !r.HasKv || r.KvRev != st.rev || !bytes.Equal(r.KvVal, st.val) {
					return fmt.Errorf("%s deleted (%q @%d) but returned previous kv (%q @%d)", r, trunc(st.val), st.rev, trunc(r.KvVal), r.KvRev)
				}
				st = keyState{live: false, rev: r.Rev}
			}
			links[key][r.Rev] = r
		}
		finalState[key] = st
	}
	// (iii)/(iv): stored state equals the last link; version records are exactly baseline + links
	if err := env.Settle(); err != nil {
		return err
	}
	for _, key := range env.Keys {
		st := finalState[key]
		g, err := env.B.Get(env.Ctx, &proto.GetRequest{Key: []byte(key)})
		if err != nil {
			return fmt.Errorf("final Get(%q): %v", key, err)
		}
		if st.live {
			if g.Kv == nil || g.Kv.Revision != st.rev || !bytes.Equal(g.Kv.Value, st.val) {
				return fmt.Errorf("final state of %q is %s, the chain of successful writes ends with (%q @%d)", key, kvOf(g.Kv), trunc(st.val), st.rev)
			}
		} else if g.Kv != nil {
			return fmt.Errorf("final state of %q is %s, the chain of successful writes ends with a deletion/absence", key, kvOf(g.Kv))
		}
	}
	raw, err := DumpAll(env.Eng.KV)
	if err != nil {
		return Inconclusivef("dump: %v", err)
	}
	seenLink := map[string]bool{}
	for _, r := range raw {
		if len(r.Key) < 13 {
			continue
		}
		uk, rev, derr := shimCoder.Decode(r.Key)
		if derr != nil {
			continue
		}
		key := string(uk)
		if rev == 0 {
			// index record must agree with the chain end
			st, tracked := finalState[key]
			if !tracked || len(r.Val) < 8 {
				continue
			}
			if len(links[key]) == 0 {
				if h.Case.Compactor {
					continue
				}
				if b, ok := h.Baseline[string(r.Key)]; !ok || b != string(r.Val) {
					return fmt.Errorf("index record of %q changed although no write on it was acknowledged", key)
				}
				continue
			}
			irev := binary.BigEndian.Uint64(r.Val[:8])
			if irev != st.rev {
				return fmt.Errorf("index record of %q names revision %d, the chain of acknowledged writes ends at %d", key, irev, st.rev)
			}
			if (len(r.Val) == 9) == st.live {
				return fmt.Errorf("index record of %q has deletion flag=%v but the chain ends live=%v", key, len(r.Val) == 9, st.live)
			}
			continue
		}
		if _, ok := h.Baseline[string(r.Key)]; ok {
			continue
		}
		l, ok := links[key][rev]
		if !ok {
			return fmt.Errorf("the store holds a version record %q @%d that no acknowledged write produced (a failed or errored request left a trace)", key, rev)
		}
		seenLink[fmt.Sprintf("%s@%d", key, rev)] = true
		if l.Op.Kind != "delete" && !bytes.Equal(r.Val, l.Val) {
			return fmt.Errorf("version record %q @%d holds %q, the acknowledged write wrote %q", key, rev, trunc(r.Val), trunc(l.Val))
		}
	}
	for key, m := range links {
		for rev, l := range m {
			if !seenLink[fmt.Sprintf("%s@%d", key, rev)] {
				if h.Case.Compactor && !(finalState[key].live && finalState[key].rev == rev) {
					continue // a concurrent compaction may have removed superseded versions and tombstones
				}
				return fmt.Errorf("acknowledged write %s has no version record in the store", l)
			}
		}
	}
	for k := range h.Baseline {
		if h.Case.Compactor {
			break
		}
		found := false
		for _, r := range raw {
			if string(r.Key) == k {
				found = true
				break
			}
		}
		if !found && len(k) >= 13 {
			if _, rev, derr := shimCoder.Decode([]byte(k)); derr == nil && rev != 0 {
				return fmt.Errorf("a version record present before the concurrent phase disappeared: %q", k)
			}
		}
	}
	// with a compaction in the mix an index record may legitimately be gone (deleted key) — but never for a live key
	if h.Case.Compactor {
		for _, key := range env.Keys {
			st := finalState[key]
			found := false
			for _, r := range raw {
				if bytes.Equal(r.Key, shimCoder.EncodeRevisionKey([]byte(key))) {
					found = true
				}
			}
			if st.live && !found {
				return fmt.Errorf("%q is live (chain ends at %d) but its index record is gone after a concurrent compaction", key, st.rev)
			}
		}
	}
	h.finalState = finalState
	// (v) a reported failed condition is justified by some state of the key inside the request's window
	// (a create racing with the compaction of the key's deletion record may be refused: tolerated, the statement
	// promises normal semantics afterwards)
	if !h.Case.Free && !h.Case.Compactor {
		for _, r := range h.Ops {
			if r.Outcome != "fail" {
				continue
			}
			if err := h.justified(r); err != nil {
				return err
			}
		}
	}
	return nil
}

// justified checks that a Succeeded=false answer had a reason at some moment between invocation and response
func (h *ConcHistory) justified(r *OpRec) error {
	// states of the key after 0..n commits of the concurrent phase
	st := h.initialState(r.Key)
	states := []keyState{st}
	for _, c := range h.Commits {
		if c.RawKey == r.Key {
			if c.Delete {
				st = keyState{live: false, rev: c.Rev}
			} else {
				st = keyState{live: true, rev: c.Rev}
			}
		}
		states = append(states, st)
	}
	lo, hi := r.InvCommits, r.RespCommits
	if hi >= len(states) {
		hi = len(states) - 1
	}
	for i := lo; i <= hi; i++ {
		s := states[i]
		switch {
		case r.Op.Kind == "create" || (r.Op.Kind == "update" && r.Exp == 0):
			if s.live {
				return nil
			}
		case r.Op.Kind == "update":
			if !s.live || s.rev != r.Exp {
				return nil
			}
		case r.Op.Kind == "delete":
			if !s.live || (r.Exp != 0 && s.rev != r.Exp) {
				return nil
			}
			// an unguarded delete carries no expectation of its own; the node deletes "the version it observed",
			// so a concurrent modification of the key inside the window is a legitimate reason to report failure
			if r.Exp == 0 && i > lo && (states[i].rev != states[i-1].rev || states[i].live != states[i-1].live) {
				return nil
			}
		}
	}
	return fmt.Errorf("spurious failure: %s reported a failed condition, but %q matched the expectation at every moment between invocation and response (states %v)", r, r.Key, states[lo:hi+1])
}

// CheckRevisions is the C02 oracle
func (h *ConcHistory) CheckRevisions() error {
	own := func(r *OpRec) uint64 {
		if r.OwnRev != 0 {
			return r.OwnRev
		}
		if r.Outcome == "ok" {
			return r.Rev
		}
		if r.Outcome == "fail" && (r.Op.Kind == "create") {
			return r.Rev
		}
		return 0
	}
	seen := map[uint64]*OpRec{}
	for _, r := range h.Ops {
		if r.Outcome == "ok" && r.OwnRev != 0 && r.OwnRev != r.Rev {
			return fmt.Errorf("%s: header revision %d differs from the revision %d stamped on its version record", r, r.Rev, r.OwnRev)
		}
		o := own(r)
		if o == 0 {
			continue
		}
		if o <= h.PreLast {
			return fmt.Errorf("%s was stamped %d, not greater than a revision %d issued before it was invoked", r, o, h.PreLast)
		}
		if p, dup := seen[o]; dup {
			return fmt.Errorf("revision %d was stamped on two attempts: %s and %s", o, p, r)
		}
		seen[o] = r
	}
	for _, a := range h.Ops {
		for _, b := range h.Ops {
			if a == b || a.RespTick >= b.InvTick {
				continue
			}
			oa, ob := own(a), own(b)
			if oa != 0 && ob != 0 && oa >= ob {
				return fmt.Errorf("real-time order violated: %s completed before %s was invoked but has the larger revision", a, b)
			}
			if oa != 0 && ob == 0 && b.Rev != 0 && b.Outcome != "err" && oa >= b.Rev && !b.FutureClass {
				return fmt.Errorf("real-time order violated: %s completed before %s was invoked, yet the latter's header revision is not larger", a, b)
			}
		}
	}
	for _, r := range h.Ops {
		if r.HasKv && r.Outcome != "err" && r.Rev < r.KvRev {
			return fmt.Errorf("%s: header revision %d is smaller than the revision %d of the kv it returns", r, r.Rev, r.KvRev)
		}
		if r.DidRead && r.ListErr == "" && r.ListN > 0 && r.ListHdr < r.ListKvRev {
			return fmt.Errorf("%s: range read back at revision %d, the answer's header revision %d is smaller than the revision %d of a kv it carries", r, r.Rev, r.ListHdr, r.ListKvRev)
		}
		if !r.DidRead || r.ReadErr != "" {
			continue
		}
		// the client read its own write back at the revision it was answered with
		if r.ReadHasKv && r.ReadHdr < r.ReadKvRev {
			return fmt.Errorf("%s: read back at revision %d, the answer's header revision %d is smaller than the revision %d of the kv it carries", r, r.Rev, r.ReadHdr, r.ReadKvRev)
		}
		if r.ReadHasKv && r.ReadKvRev > r.Rev {
			return fmt.Errorf("%s: read back at revision %d returned a kv of the later revision %d", r, r.Rev, r.ReadKvRev)
		}
		if !h.Case.Compactor && !h.Case.PreCompact && len(h.Case.Faults) == 0 {
			if !r.ReadHasKv || r.ReadKvRev != r.Rev || !bytes.Equal(r.ReadVal, r.Val) {
				return fmt.Errorf("%s: read back at its own revision %d returned kv=%v %q@%d, want %q@%d", r, r.Rev, r.ReadHasKv, trunc(r.ReadVal), r.ReadKvRev, trunc(r.Val), r.Rev)
			}
		}
	}
	return nil
}

// CollectEvents writes a fence and reads the watch up to it
func (h *ConcHistory) CollectEvents() error {
	env := h.Env
	if h.UnknownFaults {
		// let the repair of unknown-outcome writes run (twice: a failed repair is retried at the next tick)
		for i := 0; i < 3; i++ {
			deadline := time.Now().Add(5 * time.Second)
			for env.B.GetCurrentRevision() < h.maxOwn() && time.Now().Before(deadline) {
				time.Sleep(50 * time.Microsecond)
			}
			backend.RetryNowForVerif(env.B)
			time.Sleep(300 * time.Microsecond)
		}
	}
	// (a client id distinguishes the probe from the background repair, whose commits carry none)
	fr, err := env.B.Create(ClientCtx(9999), &proto.CreateRequest{Key: []byte(Prefix + "/zz-fence"), Value: []byte("fence")})
	if err != nil || !fr.Succeeded {
		return fmt.Errorf("probe create after quiescence failed: %v %v", err, fr)
	}
	if !WaitCommitted(env.B, fr.Header.Revision, 10*time.Second) {
		time.Sleep(2 * time.Second)
		if env.B.GetCurrentRevision() < fr.Header.Revision {
			return fmt.Errorf("stall: after all requests returned, a probe write at revision %d never became readable (read revision stuck at %d)", fr.Header.Revision, env.B.GetCurrentRevision())
		}
	}
	l, err := env.B.List(context.Background(), &proto.RangeRequest{Key: []byte(Prefix + "/zz"), End: []byte(Prefix + "/zzz")})
	if err != nil || len(l.Kvs) != 1 {
		return fmt.Errorf("probe write not visible in List at the latest revision: %v %v", err, l)
	}
	deadline := time.After(20 * time.Second)
	for {
		select {
		case evs, ok := <-h.watch:
			if !ok {
				return fmt.Errorf("watch closed before the probe event")
			}
			for _, e := range evs {
				if string(e.Kv.Key) == Prefix+"/zz-fence" {
					return nil
				}
				h.Events = append(h.Events, e)
			}
		case <-deadline:
			return fmt.Errorf("stall: the probe write's event did not reach a watch opened before it within 20s")
		}
	}
}

// CheckEvents compares the delivered events with the acknowledged writes (C02 last clause, C04 progress)
func (h *ConcHistory) CheckEvents() error {
	var succ []*OpRec
	for _, r := range h.Ops {
		if r.Outcome == "ok" {
			succ = append(succ, r)
		}
	}
	sort.Slice(succ, func(i, j int) bool { return succ[i].Rev < succ[j].Rev })
	if len(h.Events) != len(succ) {
		var sb strings.Builder
		for _, e := range h.Events {
			sb.WriteString(fmt.Sprintf("%s %s@%d; ", e.Type, e.Kv.Key, e.Revision))
		}
		return fmt.Errorf("%d acknowledged writes but %d events delivered: %s", len(succ), len(h.Events), sb.String())
	}
	for i, e := range h.Events {
		r := succ[i]
		if e.Revision != r.Rev || string(e.Kv.Key) != r.Key {
			return fmt.Errorf("event %d is %s %q @%d, the %d-th acknowledged write is %s", i, e.Type, e.Kv.Key, e.Revision, i, r)
		}
		if r.Op.Kind == "delete" {
			if e.Type != proto.Event_DELETE || e.Kv.Revision != r.KvRev || !bytes.Equal(e.Kv.Value, r.KvVal) {
				return fmt.Errorf("event for %s is %s carrying (%q @%d)", r, e.Type, trunc(e.Kv.Value), e.Kv.Revision)
			}
		} else {
			if e.Type == proto.Event_DELETE || e.Kv.Revision != r.Rev || !bytes.Equal(e.Kv.Value, r.Val) {
				return fmt.Errorf("event for %s is %s carrying (%q @%d)", r, e.Type, trunc(e.Kv.Value), e.Kv.Revision)
			}
		}
	}
	return nil
}

var _ = storage.ErrCASFailed

// Describe renders the recorded history for failure messages
func (h *ConcHistory) Describe() string {
	var sb strings.Builder
	for _, k := range h.Env.Keys {
		st := h.initialState(k)
		sb.WriteString(fmt.Sprintf("  initial %q live=%v rev=%d\n", k, st.live, st.rev))
	}
	for _, r := range h.Ops {
		sb.WriteString("  " + r.String() + "\n")
	}
	for _, c := range h.Commits {
		sb.WriteString(fmt.Sprintf("  commit#%d client=%d %q @%d delete=%v\n", c.Seq, c.Client, c.RawKey, c.Rev, c.Delete))
	}
	if len(h.Trace) > 0 {
		sb.WriteString("  schedule: " + strings.Join(h.Trace, " ") + "\n")
	}
	return sb.String()
}

// CheckWritable: every key stays writable with normal semantics — one more write per key, decided by the end state of
// the chain computed by CheckChain (call it last: it adds writes)
func (h *ConcHistory) CheckWritable() error {
	env := h.Env
	finalState := h.finalState
	if finalState == nil {
		return nil
	}
	for i, key := range env.Keys {
		st := finalState[key]
		var werr error
		var ok bool
		if st.live {
			r, e := env.B.Update(env.Ctx, &proto.UpdateRequest{Kv: &proto.KeyValue{Key: []byte(key), Value: []byte(fmt.Sprintf("post-%d", i)), Revision: st.rev}})
			werr, ok = e, r.GetSucceeded()
		} else {
			r, e := env.B.Create(env.Ctx, &proto.CreateRequest{Key: []byte(key), Value: []byte(fmt.Sprintf("post-%d", i))})
			werr, ok = e, r.GetSucceeded()
		}
		if werr != nil || !ok {
			return fmt.Errorf("after the concurrent phase %q (chain ends live=%v rev=%d) rejects a write with the right expectation: succeeded=%v err=%v", key, st.live, st.rev, ok, werr)
		}
	}
	return nil
}

func (h *ConcHistory) maxOwn() uint64 {
	var mx uint64
	for _, r := range h.Ops {
		if r.OwnRev > mx {
			mx = r.OwnRev
		}
	}
	return mx
}
