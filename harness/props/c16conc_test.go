package props

// C16, concurrent histories: the etcd-compatible endpoint under concurrent clients. etcd evaluates a transaction's
// compare and the range of its failure branch in one step, so no execution of etcd answers "compare failed" together
// with a key-value whose modification revision is the compared one.

import (
	"bytes"
	"fmt"
	"strings"
	"testing"

	"pgregory.net/rapid"
)

// checkFailureBranch judges the key-value carried by answers whose condition failed
func checkFailureBranch(h *ConcHistory) error {
	for _, r := range h.Ops {
		if r.Outcome != "fail" || !r.HasKv || r.Exp == 0 || bytes.Equal(r.KvVal, []byte("tombstone")) {
			continue
		}
		if r.KvRev == r.Exp && (r.Op.Kind == "update" || r.Op.Kind == "delete") {
			// what the key was when the answer was given: the last commit on it that had succeeded by then
			kind := r.Op.Kind
			if kind == "delete" {
				// the node re-reads the key after its compare-and-delete failed; if the key was deleted at any moment of
				// the request's window it may have found nothing to show (recorded finding); if no delete of the key
				// committed inside the window the key was live at another revision all along, and that must be shown
				kind = "delete-after-update"
				st := h.initialState(r.Key)
				states := []keyState{st}
				for _, cm := range h.Commits {
					if cm.RawKey == r.Key {
						st = keyState{live: !cm.Delete, rev: cm.Rev}
					}
					states = append(states, st)
				}
				lo, hi := r.InvCommits, r.RespCommits
				if hi >= len(states) {
					hi = len(states) - 1
				}
				if lo > hi {
					lo = hi
				}
				for i := lo; i <= hi; i++ {
					if !states[i].live {
						kind = "delete-after-delete"
					}
				}
			}
			return fmt.Errorf("failure-branch[%s]: %s answered \"compare failed\" for mod revision %d and its failure branch carries the key at exactly that revision (%q @%d); under etcd semantics the failure branch shows the state that made the compare fail", kind, r, r.Exp, trunc(r.KvVal), r.KvRev)
		}
	}
	return nil
}

func runC16Conc(ci interface{}, st *CaseStats) error {
	c := ci.(*ConcCase)
	c.API = "etcd"
	h, err := RunConc(c)
	if h != nil && h.Env != nil {
		defer h.Env.Close()
	}
	if err != nil {
		return err
	}
	nOK, nFail, _ := concLabels(h, st)
	failedWithKv := false
	for _, r := range h.Ops {
		if r.Outcome == "fail" && r.HasKv {
			failedWithKv = true
		}
		// the success flag and the header follow etcd as well: covered by the chain walk below
	}
	if err := checkFailureBranch(h); err != nil {
		return fmt.Errorf("%v\nhistory:\n%s", err, h.Describe())
	}
	if err := h.CheckChain(); err != nil {
		return fmt.Errorf("%v\nhistory:\n%s", err, h.Describe())
	}
	if err := h.CheckRevisions(); err != nil {
		return fmt.Errorf("%v\nhistory:\n%s", err, h.Describe())
	}
	if h.Overlap && nOK > 0 && nFail > 0 && failedWithKv {
		st.Nontrivial()
	}
	return nil
}

// probeC16DeleteLosesToDelete: two guarded deletes of one key at its current revision, the second one's compare-and-
// delete reaching the engine after the first has committed
func probeC16DeleteLosesToDelete() (bool, string) {
	base := ConcCase{Engine: EngMem, Keys: []string{"a"}, Prelude: []WOp{{Kind: "create", K: 0}},
		Clients: [][]WOp{{{Kind: "delete", K: 0, Exp: "ok"}}, {{Kind: "delete", K: 0, Exp: "ok"}}}, API: "etcd"}
	for mask := 0; mask < 256; mask++ {
		c := base
		c.Sched = nil
		for i := 0; i < 8; i++ {
			c.Sched = append(c.Sched, (mask>>uint(i))&1)
		}
		h, err := RunConc(&c)
		if h != nil && h.Env != nil {
			ferr := checkFailureBranch(h)
			h.Env.Close()
			if err == nil && ferr != nil && strings.Contains(ferr.Error(), "failure-branch[delete-after-delete]") {
				return true, ferr.Error()
			}
		}
	}
	return false, ""
}

var specC16Conc = &Spec{
	ID:   "C16",
	Rule: "concurrent mode: case = C01's generator (1..2 keys, prelude, 2..4 clients x 1..4 requests, a schedule over the storage gates; free-running shards on goroutines) with every request sent through the etcd-compatible server as the transaction shape kube-apiserver uses. Oracle: no answer combines \"compare failed\" with a failure-branch key-value whose modification revision is the compared one (no execution of etcd produces that); successes form a chain in revision order; header >= data. Non-trivial = overlapping requests with at least one success and one failed compare that carries a key-value; distinct = SHA-1 of the case",
	Gen: func(t *rapid.T) interface{} {
		c := genConcCase(t, 0, 0, 4)
		// no guessed revisions here: a compare against a revision that has not been handed out yet can fail and the
		// key can reach exactly that revision before the failure branch is read — an answer no etcd client can
		// provoke, since clients only compare against revisions they have seen
		for ci := range c.Clients {
			for oi := range c.Clients[ci] {
				if c.Clients[ci][oi].Exp == "soon" {
					c.Clients[ci][oi].Exp = "latest"
				}
			}
		}
		return c
	},
	New: func() interface{} { return &ConcCase{} },
	Run: runC16Conc,
	Match: func(cse interface{}, err error) string {
		if strings.Contains(err.Error(), "failure-branch[delete-after-delete]") {
			return "guarded-delete-losing-a-race-returns-the-key-it-read"
		}
		return ""
	},
	Probes: map[string]func() (bool, string){
		"guarded-delete-losing-a-race-returns-the-key-it-read": probeC16DeleteLosesToDelete,
	},
	Assumptions: []string{
		"interleavings at the granularity of storage calls (gated shards) or whatever the scheduler produces (free-running shards)",
	},
	Engines: []string{EngMem, EngTiKV},
}

func TestC16Conc(t *testing.T) { RunProperty(t, specC16Conc) }
