package props

// C05, deep catch-up: a watch that starts far behind replays tens of thousands of cached events before it joins the
// live stream (the replay is re-batched when it would not fit the result channel otherwise)

import (
	"context"
	"fmt"
	"testing"
	"time"

	"pgregory.net/rapid"

	proto "github.com/kubewharf/kubebrain-client/api/v2rpc"
)

type c05CatchUpCase struct {
	N      int // events written before the watch starts
	Behind int // the watch starts this many events behind the newest one (0 = replay everything)
	Other  int // every Other-th write goes to a key outside the watched prefix (0 = none)
	Live   int // events written after the watch has started
}

func genC05CatchUp(t *rapid.T) interface{} {
	c := &c05CatchUpCase{}
	c.N = rapid.SampledFrom([]int{2000, 29999, 30000, 30001, 30098, 30300, 30401, 31000, 35000, 40000}).Draw(t, "n")
	c.Behind = rapid.SampledFrom([]int{0, 0, 1, 299, 300, 301, 5000}).Draw(t, "behind")
	c.Other = rapid.SampledFrom([]int{0, 0, 0, 50, 7}).Draw(t, "other")
	c.Live = rapid.IntRange(0, 5).Draw(t, "live")
	return c
}

func runC05CatchUp(ci interface{}, st *CaseStats) error {
	c := ci.(*c05CatchUpCase)
	keys := []string{FullKey("p/a"), FullKey("q/b")}
	env, err := NewSeqEnv(SeqOpts{Engine: EngMem, Keys: keys, Backend: BackendOpts{CacheSize: 65536}})
	if err != nil {
		return Inconclusivef("engine: %v", err)
	}
	defer env.Close()
	ctx, cancel := context.WithCancel(context.Background())
	defer cancel()
	type ev struct {
		rev   uint64
		watch bool
	}
	var all []ev
	heads := map[int]uint64{}
	write := func(i int) error {
		k := 0
		if c.Other > 0 && i%c.Other == c.Other-1 {
			k = 1
		}
		var rev uint64
		if heads[k] == 0 {
			r, err := env.B.Create(ctx, &proto.CreateRequest{Key: []byte(keys[k]), Value: []byte("v")})
			if err != nil || !r.Succeeded {
				return Inconclusivef("create: %v", err)
			}
			rev = r.Header.Revision
		} else {
			r, err := env.B.Update(ctx, &proto.UpdateRequest{Kv: &proto.KeyValue{Key: []byte(keys[k]), Value: []byte(fmt.Sprintf("v%d", i)), Revision: heads[k]}})
			if err != nil || !r.Succeeded {
				return Inconclusivef("update %d: %v", i, err)
			}
			rev = r.Header.Revision
		}
		heads[k] = rev
		all = append(all, ev{rev, k == 0})
		return nil
	}
	for i := 0; i < c.N; i++ {
		if err := write(i); err != nil {
			return err
		}
	}
	if !WaitCommitted(env.B, all[len(all)-1].rev, 20*time.Second) {
		return Inconclusivef("writes not committed")
	}
	behind := c.Behind
	if behind >= len(all) {
		behind = len(all) - 1
	}
	start := all[len(all)-1-behind].rev
	if behind == 0 {
		start = all[0].rev
	}
	type wres struct {
		ch  <-chan []*proto.Event
		err error
	}
	wdone := make(chan wres, 1)
	go func() {
		ch, err := env.B.Watch(ctx, Prefix+"/p/", start)
		wdone <- wres{ch, err}
	}()
	var ch <-chan []*proto.Event
	select {
	case r := <-wdone:
		ch, err = r.ch, r.err
	case <-time.After(30 * time.Second):
		return fmt.Errorf("Watch(start=%d) over %d cached events did not return within 30s (the replay is written before the channel is handed out)", start, c.N)
	}
	if err != nil {
		return fmt.Errorf("watch from revision %d refused although the cache holds events from %d on: %v", start, all[0].rev, err)
	}
	for i := 0; i < c.Live; i++ {
		if err := write(c.N + i); err != nil {
			return err
		}
	}
	var want []uint64
	for _, e := range all {
		if e.watch && e.rev >= start {
			want = append(want, e.rev)
		}
	}
	got := 0
	deadline := time.After(30 * time.Second)
	for got < len(want) {
		select {
		case batch, ok := <-ch:
			if !ok {
				return fmt.Errorf("the watch was closed after %d of %d events", got, len(want))
			}
			for _, e := range batch {
				if got >= len(want) {
					return fmt.Errorf("more events than changes: extra event at revision %d", e.Revision)
				}
				if e.Revision != want[got] {
					return fmt.Errorf("watch from %d over %d cached events: event #%d has revision %d, the %d-th matching change has revision %d", start, c.N, got, e.Revision, got, want[got])
				}
				got++
			}
		case <-deadline:
			return fmt.Errorf("watch from %d over %d cached events: only %d of %d events arrived within 30s", start, c.N, got, len(want))
		}
	}
	select {
	case batch := <-ch:
		if len(batch) > 0 {
			return fmt.Errorf("an event beyond the last change was delivered: revision %d", batch[0].Revision)
		}
	case <-time.After(20 * time.Millisecond):
	}
	st.Labelf("replayed>30000:%v", len(want)-c.Live > 30000)
	if len(want)-c.Live > 30000 {
		st.Nontrivial()
	}
	return nil
}

var specC05CatchUp = &Spec{
	ID:      "C05",
	Rule:    "deep catch-up mode: case = 2000..40000 single-key changes (optionally every 2nd/7th on a key outside the watched prefix) cached in a 65536-entry event cache, then a watch on the prefix starting at the oldest change or 1..5000 changes behind the newest, then 0..5 further changes. Oracle: the delivered events are exactly the matching changes from the start revision on, in order, none missing, none twice, nothing beyond. Non-trivial = more than 30000 events had to be replayed (the replay is re-batched to fit the result channel); distinct = SHA-1 of the case",
	Gen:     genC05CatchUp,
	New:     func() interface{} { return &c05CatchUpCase{} },
	Run:     runC05CatchUp,
	Engines: []string{EngMem},
}

func TestC05CatchUp(t *testing.T) { RunProperty(t, specC05CatchUp) }
