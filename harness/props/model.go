package props

// Reference MVCC model: obviously-correct code over small maps.

import (
	"bytes"
	"sort"
)

// MVersion is one version of a key
type MVersion struct {
	Rev  uint64
	Val  []byte
	Tomb bool
}

// MEvent is one expected watch event
type MEvent struct {
	Type    string // CREATE | PUT | DELETE
	Key     string
	Val     []byte // new value; for DELETE the previous value
	Rev     uint64
	PrevRev uint64 // DELETE only
}

// MKV is a key/value at a revision
type MKV struct {
	Key string
	Val []byte
	Rev uint64
}

// Model is the reference store
type Model struct {
	Keys   map[string][]MVersion
	Events []MEvent
}

// NewModel creates an empty model
func NewModel() *Model { return &Model{Keys: map[string][]MVersion{}} }

// Latest returns the newest version of key (ok=false if none)
func (m *Model) Latest(key string) (MVersion, bool) {
	vs := m.Keys[key]
	if len(vs) == 0 {
		return MVersion{}, false
	}
	return vs[len(vs)-1], true
}

// Live returns the newest version if it is not a deletion
func (m *Model) Live(key string) (MVersion, bool) {
	v, ok := m.Latest(key)
	if !ok || v.Tomb {
		return MVersion{}, false
	}
	return v, true
}

// At returns the newest version of key with revision <= rev if it is not a deletion
func (m *Model) At(key string, rev uint64) (MVersion, bool) {
	vs := m.Keys[key]
	var best *MVersion
	for i := range vs {
		if vs[i].Rev <= rev {
			best = &vs[i]
		}
	}
	if best == nil || best.Tomb {
		return MVersion{}, false
	}
	return *best, true
}

// MaxRev returns the largest revision stored
func (m *Model) MaxRev() uint64 {
	var mx uint64
	for _, vs := range m.Keys {
		for _, v := range vs {
			if v.Rev > mx {
				mx = v.Rev
			}
		}
	}
	return mx
}

// ApplyPut records a successful create or update
func (m *Model) ApplyPut(key string, val []byte, rev uint64, create bool) {
	m.Keys[key] = append(m.Keys[key], MVersion{Rev: rev, Val: cp(val)})
	typ := "PUT"
	if create {
		typ = "CREATE"
	}
	m.Events = append(m.Events, MEvent{Type: typ, Key: key, Val: cp(val), Rev: rev})
}

// ApplyDelete records a successful delete
func (m *Model) ApplyDelete(key string, rev uint64) {
	prev, _ := m.Latest(key)
	m.Keys[key] = append(m.Keys[key], MVersion{Rev: rev, Tomb: true})
	m.Events = append(m.Events, MEvent{Type: "DELETE", Key: key, Val: cp(prev.Val), Rev: rev, PrevRev: prev.Rev})
}

// SortedKeys returns all keys ever written, sorted
func (m *Model) SortedKeys() []string {
	ks := make([]string, 0, len(m.Keys))
	for k := range m.Keys {
		ks = append(ks, k)
	}
	sort.Strings(ks)
	return ks
}

// Range returns the snapshot at rev of keys in [start,end), sorted, cut at limit (0 = unlimited)
func (m *Model) Range(start, end []byte, rev uint64, limit int) (kvs []MKV, more bool) {
	for _, k := range m.SortedKeys() {
		kb := []byte(k)
		if bytes.Compare(kb, start) < 0 || bytes.Compare(kb, end) >= 0 {
			continue
		}
		if v, ok := m.At(k, rev); ok {
			kvs = append(kvs, MKV{Key: k, Val: v.Val, Rev: v.Rev})
		}
	}
	if limit > 0 && len(kvs) > limit {
		return kvs[:limit], true
	}
	return kvs, false
}

// EventsFrom returns expected events with rev >= from whose key has the prefix
func (m *Model) EventsFrom(from uint64, prefix string) []MEvent {
	var out []MEvent
	for _, e := range m.Events {
		if e.Rev >= from && len(e.Key) >= len(prefix) && e.Key[:len(prefix)] == prefix {
			out = append(out, e)
		}
	}
	return out
}

// Compact drops, in the model, what a compaction at rev may remove: versions superseded at or below rev and
// deletions at or below rev. Reads at revisions >= rev are unaffected by construction.
func (m *Model) Compact(rev uint64) {
	for k, vs := range m.Keys {
		idx := -1
		for i := range vs {
			if vs[i].Rev <= rev {
				idx = i
			}
		}
		if idx < 0 {
			continue
		}
		keep := vs[idx:]
		if keep[0].Tomb {
			keep = keep[1:]
		}
		if len(keep) == 0 {
			delete(m.Keys, k)
		} else {
			m.Keys[k] = append([]MVersion{}, keep...)
		}
	}
}
