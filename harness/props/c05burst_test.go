package props

// C05, full batches: one slow commit holds back the writes behind it; when it lands the sequencer sweeps them up in
// batches of its maximum size. A watcher that has not yet read the first batch when the next one is assembled must
// still receive every event once, in order.

import (
	"context"
	"fmt"
	"sync"
	"testing"
	"time"

	"pgregory.net/rapid"

	proto "github.com/kubewharf/kubebrain-client/api/v2rpc"
)

type c05BurstCase struct {
	Behind  int  // writes that complete while the first one is held at its commit
	ReadLag int  // milliseconds the watcher waits before it starts reading
	Second  bool // a second watcher on a narrower prefix reads at once
}

func genC05Burst(t *rapid.T) interface{} {
	return &c05BurstCase{Behind: rapid.SampledFrom([]int{120, 298, 299, 300, 301, 320, 610, 900}).Draw(t, "behind"),
		ReadLag: rapid.SampledFrom([]int{0, 5, 50}).Draw(t, "lag"), Second: DrawBool(t, 50, "second")}
}

func runC05Burst(ci interface{}, st *CaseStats) error {
	c := ci.(*c05BurstCase)
	env, err := NewSeqEnv(SeqOpts{Engine: EngMem, UseShim: true, Backend: BackendOpts{CacheSize: 4096}})
	if err != nil {
		return Inconclusivef("engine: %v", err)
	}
	defer env.Close()
	release := make(chan struct{})
	held := make(chan struct{}, 1)
	env.Shim.Gate = func(ctx context.Context, point string, detail interface{}) {
		if point == "commit" && ClientOf(ctx) == 7 {
			held <- struct{}{}
			<-release
		}
	}
	ctx, cancel := context.WithCancel(context.Background())
	defer cancel()
	ch, err := env.B.Watch(ctx, Prefix+"/b/", 0)
	if err != nil {
		return fmt.Errorf("watch refused: %v", err)
	}
	var ch2 <-chan []*proto.Event
	if c.Second {
		if ch2, err = env.B.Watch(ctx, Prefix+"/b/k00", 0); err != nil {
			return fmt.Errorf("second watch refused: %v", err)
		}
	}
	// the slow write takes the lowest revision
	firstDone := make(chan *proto.CreateResponse, 1)
	go func() {
		r, _ := env.B.Create(ClientCtx(7), &proto.CreateRequest{Key: []byte(Prefix + "/b/first"), Value: []byte("f")})
		firstDone <- r
	}()
	select {
	case <-held:
	case <-time.After(10 * time.Second):
		return Inconclusivef("the first write never reached its commit")
	}
	revs := make([]uint64, c.Behind)
	var wg sync.WaitGroup
	for w := 0; w < 8; w++ {
		wg.Add(1)
		go func(w int) {
			defer wg.Done()
			for i := w; i < c.Behind; i += 8 {
				r, err := env.B.Create(ClientCtx(100+w), &proto.CreateRequest{Key: []byte(fmt.Sprintf("%s/b/k%05d", Prefix, i)), Value: []byte("v")})
				if err == nil && r.Succeeded {
					revs[i] = r.Header.Revision
				}
			}
		}(w)
	}
	wg.Wait()
	close(release)
	fr := <-firstDone
	if fr == nil || !fr.Succeeded {
		return Inconclusivef("first write failed")
	}
	want := map[uint64]bool{fr.Header.Revision: true}
	max := fr.Header.Revision
	for i, r := range revs {
		if r == 0 {
			return Inconclusivef("write %d failed", i)
		}
		want[r] = true
		if r > max {
			max = r
		}
	}
	if !WaitCommitted(env.B, max, 20*time.Second) {
		return fmt.Errorf("stall: revision %d never became readable after the slow write landed", max)
	}
	time.Sleep(time.Duration(c.ReadLag) * time.Millisecond)
	read := func(ch <-chan []*proto.Event, want map[uint64]bool, who string) error {
		var last uint64
		got := 0
		deadline := time.After(20 * time.Second)
		for got < len(want) {
			select {
			case batch, ok := <-ch:
				if !ok {
					return nil // closing is allowed (a prefix was delivered in order)
				}
				for _, e := range batch {
					if e.Revision <= last {
						return fmt.Errorf("%s: after %d writes were sequenced in one sweep, event #%d has revision %d after revision %d: not strictly increasing (an event was delivered twice or out of order)", who, c.Behind+1, got, e.Revision, last)
					}
					if !want[e.Revision] {
						return fmt.Errorf("%s: event with revision %d does not belong to any successful write under the prefix", who, e.Revision)
					}
					last = e.Revision
					got++
				}
			case <-deadline:
				return fmt.Errorf("%s: only %d of %d events arrived within 20s after %d writes were sequenced in one sweep", who, got, len(want), c.Behind+1)
			}
		}
		return nil
	}
	if err := read(ch, want, "watch on the whole prefix"); err != nil {
		return err
	}
	if c.Second {
		w2 := map[uint64]bool{}
		for i, r := range revs {
			if i < 1000 && fmt.Sprintf("k%05d", i)[:3] == "k00" {
				w2[r] = true
			}
		}
		if err := read(ch2, w2, "watch on a narrower prefix"); err != nil {
			return err
		}
	}
	if c.Behind >= 299 {
		st.Label("full-batch")
		st.Nontrivial()
	}
	return nil
}

var specC05Burst = &Spec{
	ID:      "C05",
	Rule:    "full-batch mode: case = one write held at its storage commit while 120..900 further writes (8 writers) complete behind it, then released, so that the sequencer sweeps them up in batches of its maximum size (300); a watcher on the prefix that starts reading 0..50 ms later, optionally a second watcher on a narrower prefix. Oracle: each watcher receives the events of exactly the successful writes under its prefix, in strictly increasing revision order, each once (or its stream is closed). Non-trivial = at least 299 writes behind the held one; distinct = SHA-1 of the case",
	Gen:     genC05Burst,
	New:     func() interface{} { return &c05BurstCase{} },
	Run:     runC05Burst,
	Engines: []string{EngMem},
}

func TestC05Burst(t *testing.T) { RunProperty(t, specC05Burst) }
