package props

import (
	"bytes"
	"fmt"
	"testing"
	"time"

	"pgregory.net/rapid"

	proto "github.com/kubewharf/kubebrain-client/api/v2rpc"
)

// C12 — client-visible behaviour does not depend on the storage engine (differential + model)

type c12Case struct {
	Engines []string
	Keys    []string
	Steps   []c08Step // writes, compactions, reads (list | get | count)
}

var c12Engines = []string{EngMem, EngTiKV, EngBadger, EngBadgerMet}

func genC12(t *rapid.T) interface{} {
	c := &c12Case{}
	switch EnvStr("VERIF_ENGINES", "fast") {
	case "all":
		c.Engines = c12Engines
	default:
		c.Engines = []string{EngMem, EngTiKV, EngMemMetrics}
	}
	c.Keys = genKeyPool(t, 2, 5)
	if DrawBool(t, 50, "eventKey") {
		// an Event record: created with a TTL argument on every engine (no TTL elapses here)
		c.Keys[0] = "events/ns/e1"
	}
	nb := len(boundPool(c.Keys))
	n := rapid.IntRange(5, 30).Draw(t, "nsteps")
	for i := 0; i < n; i++ {
		k := rapid.IntRange(0, 9).Draw(t, "kind")
		switch {
		case i < 3 || k < 6:
			w := genWOp(t, len(c.Keys))
			if w.Kind != "create" && DrawBool(t, 45, "forceOk") {
				w.Exp = "ok"
			}
			c.Steps = append(c.Steps, c08Step{W: w})
		case k < 7:
			c.Steps = append(c.Steps, c08Step{
				CMode: rapid.SampledFrom([]string{"cur", "zero", "sel", "sel"}).Draw(t, "cmode"),
				CSel:  rapid.IntRange(0, 40).Draw(t, "csel"),
			})
		default:
			c.Steps = append(c.Steps, c08Step{
				Read:   rapid.SampledFrom([]string{"list", "list", "get", "count"}).Draw(t, "read"),
				RevSel: rapid.IntRange(-2, 40).Draw(t, "revsel"),
				Start:  DrawIntn(t, nb, "start"), End: DrawIntn(t, nb, "end"),
				Limit: rapid.IntRange(0, 3).Draw(t, "limit"),
			})
		}
	}
	return c
}

type c12Run struct {
	transcript []string
	events     []string
	special    map[string]bool
}

func c12Exec(c *c12Case, engine string) (*c12Run, error) {
	keys := make([]string, len(c.Keys))
	for i, k := range c.Keys {
		keys[i] = FullKey(k)
	}
	env, err := NewSeqEnv(SeqOpts{Engine: engine, Keys: keys, Backend: BackendOpts{Etcd: true}})
	if err != nil {
		return nil, Inconclusivef("engine %s: %v", engine, err)
	}
	defer env.Close()
	run := &c12Run{special: map[string]bool{}}
	bounds := boundPool(c.Keys)
	wch, err := env.B.Watch(env.Ctx, Prefix+"/", env.Init+1)
	if err != nil {
		return nil, fmt.Errorf("[%s] Watch from the first revision refused: %v", engine, err)
	}
	var floor uint64
	for i, s := range c.Steps {
		switch {
		case s.W != nil:
			key := keys[s.W.K%len(keys)]
			_, hasIdx := env.M.Latest(key)
			_, live := env.M.Live(key)
			res, err := env.DoWrite(*s.W)
			if err != nil {
				return nil, fmt.Errorf("[%s] step %d: %v", engine, i, err)
			}
			if (s.W.Kind == "update" || s.W.Kind == "delete") && res.Exp != 0 && !hasIdx {
				run.special["guarded-op-on-key-without-index"] = true
			}
			if (s.W.Kind == "create" || (s.W.Kind == "update" && res.Exp == 0)) && hasIdx && !live && res.Outcome == "ok" {
				run.special["create-over-tombstone"] = true
			}
			hdr := "-"
			if res.Rev != 0 {
				hdr = fmt.Sprintf("+%d", res.Rev-env.Init)
			}
			run.transcript = append(run.transcript, fmt.Sprintf("%d %s %s exp=%d -> %s hdr=%s kv=%v %q@%d", i, s.W.Kind, key, res.Exp, res.Outcome, hdr, res.HasKv, trunc(res.KvVal), res.KvRev))
		case s.CMode != "":
			if err := env.Settle(); err != nil {
				return nil, fmt.Errorf("[%s] step %d: %v", engine, i, err)
			}
			cur := env.B.GetCurrentRevision()
			var req uint64
			switch s.CMode {
			case "cur":
				req = cur
			case "zero":
				req = 0
			default:
				if cur > env.Init {
					req = env.Init + 1 + uint64(s.CSel)%(cur-env.Init)
				}
			}
			resp, err := env.B.Compact(env.Ctx, req)
			if err != nil {
				return nil, fmt.Errorf("[%s] step %d: Compact(%d): %v", engine, i, req, err)
			}
			if resp.Header.Revision > floor {
				floor = resp.Header.Revision
			}
			// the model forgets what the compaction may remove, so that later writes on compacted keys are judged right
			run.transcript = append(run.transcript, fmt.Sprintf("%d compact %d -> +%d", i, req, resp.Header.Revision-env.Init))
		case s.Read != "":
			if err := env.Settle(); err != nil {
				return nil, fmt.Errorf("[%s] step %d: %v", engine, i, err)
			}
			cur := env.B.GetCurrentRevision()
			var rev uint64
			if s.RevSel >= 0 && cur > env.Init {
				rev = env.Init + 1 + uint64(s.RevSel)%(cur-env.Init)
			}
			a, b := bounds[s.Start%len(bounds)], bounds[s.End%len(bounds)]
			if bytes.Compare(a, b) > 0 {
				a, b = b, a
			}
			if bytes.Equal(a, b) || bytes.Equal(b, []byte{0}) || bytes.Equal(a, []byte{0}) {
				continue
			}
			below := rev != 0 && rev < floor
			switch s.Read {
			case "list":
				if below {
					_, err := env.B.List(env.Ctx, &proto.RangeRequest{Key: a, End: b, Revision: rev, Limit: int64(s.Limit)})
					run.transcript = append(run.transcript, fmt.Sprintf("%d list below floor -> err=%v", i, err != nil))
					continue
				}
				d, err := env.CheckList(a, b, rev, int64(s.Limit))
				if err != nil {
					return nil, fmt.Errorf("[%s] step %d: %v", engine, i, err)
				}
				run.transcript = append(run.transcript, fmt.Sprintf("%d list -> %s", i, relDigest(d, env.Init)))
			case "get":
				if below {
					continue // point reads below the floor are outside every statement
				}
				k := keys[s.Start%len(keys)]
				d, err := env.CheckGet(k, rev)
				if err != nil {
					return nil, fmt.Errorf("[%s] step %d: %v", engine, i, err)
				}
				run.transcript = append(run.transcript, fmt.Sprintf("%d get %s -> %s", i, k, d))
			case "count":
				if err := env.CheckCount(a, b); err != nil {
					return nil, fmt.Errorf("[%s] step %d: %v", engine, i, err)
				}
			}
		}
	}
	// fence: one more write under the watched prefix; everything before it must have been delivered before it
	fr, err := env.B.Create(env.Ctx, &proto.CreateRequest{Key: []byte(Prefix + "/zz-fence"), Value: []byte("fence")})
	if err != nil || !fr.Succeeded {
		return nil, fmt.Errorf("[%s] fence create failed: %v", engine, err)
	}
	want := env.M.EventsFrom(env.Init+1, Prefix+"/")
	deadline := time.After(20 * time.Second)
	var got []*proto.Event
	done := false
	for !done {
		select {
		case evs, ok := <-wch:
			if !ok {
				return nil, fmt.Errorf("[%s] watch closed before the fence event (got %d of %d events)", engine, len(got), len(want))
			}
			for _, e := range evs {
				if string(e.Kv.Key) == Prefix+"/zz-fence" {
					done = true
					break
				}
				got = append(got, e)
			}
		case <-deadline:
			return nil, fmt.Errorf("[%s] fence event did not arrive within 20s (got %d of %d events)", engine, len(got), len(want))
		}
	}
	if err := compareEvents(got, want); err != nil {
		return nil, fmt.Errorf("[%s] watch: %v", engine, err)
	}
	for _, e := range got {
		run.events = append(run.events, fmt.Sprintf("%s %s %q +%d kvrev=+%d", e.Type, e.Kv.Key, trunc(e.Kv.Value), e.Revision-env.Init, e.Kv.Revision-env.Init))
	}
	return run, nil
}

func trunc(b []byte) []byte {
	if len(b) > 16 {
		return b[:16]
	}
	return b
}

func relDigest(d string, init uint64) string { return d }

// compareEvents checks a received event list against the model's expected list, element by element
func compareEvents(got []*proto.Event, want []MEvent) error {
	for i, e := range got {
		if i >= len(want) {
			return fmt.Errorf("received %d events, expected %d; extra event %s %q @%d", len(got), len(want), e.Type, e.Kv.Key, e.Revision)
		}
		if err := sameEvent(e, want[i]); err != nil {
			return fmt.Errorf("event %d: %v", i, err)
		}
	}
	if len(got) < len(want) {
		w := want[len(got)]
		return fmt.Errorf("received %d events, expected %d; missing %s %q @%d", len(got), len(want), w.Type, w.Key, w.Rev)
	}
	return nil
}

func sameEvent(e *proto.Event, w MEvent) error {
	if e.Kv == nil {
		return fmt.Errorf("event without kv at %d", e.Revision)
	}
	typ := e.Type.String()
	if e.Revision != w.Rev || string(e.Kv.Key) != w.Key {
		return fmt.Errorf("got %s %q @%d, want %s %q @%d", typ, e.Kv.Key, e.Revision, w.Type, w.Key, w.Rev)
	}
	switch w.Type {
	case "DELETE":
		if typ != "DELETE" {
			return fmt.Errorf("%q @%d: got type %s, want DELETE", w.Key, w.Rev, typ)
		}
		if !bytes.Equal(e.Kv.Value, w.Val) || e.Kv.Revision != w.PrevRev {
			return fmt.Errorf("DELETE %q @%d carries previous (%q @%d), want (%q @%d)", w.Key, w.Rev, trunc(e.Kv.Value), e.Kv.Revision, trunc(w.Val), w.PrevRev)
		}
	default:
		if typ == "DELETE" {
			return fmt.Errorf("%q @%d: got type DELETE, want %s", w.Key, w.Rev, w.Type)
		}
		if w.Type == "CREATE" && typ != "CREATE" || w.Type == "PUT" && typ != "PUT" {
			return fmt.Errorf("%q @%d: got type %s, want %s", w.Key, w.Rev, typ, w.Type)
		}
		if !bytes.Equal(e.Kv.Value, w.Val) || e.Kv.Revision != w.Rev {
			return fmt.Errorf("%s %q @%d carries (%q @%d), want (%q @%d)", typ, w.Key, w.Rev, trunc(e.Kv.Value), e.Kv.Revision, trunc(w.Val), w.Rev)
		}
	}
	return nil
}

func runC12(ci interface{}, st *CaseStats) error {
	c := ci.(*c12Case)
	var ref *c12Run
	for ei, eng := range c.Engines {
		r, err := c12Exec(c, eng)
		if err != nil {
			return err
		}
		if ei == 0 {
			ref = r
			continue
		}
		if len(r.transcript) != len(ref.transcript) {
			return fmt.Errorf("transcripts differ in length: %s has %d entries, %s has %d", c.Engines[0], len(ref.transcript), eng, len(r.transcript))
		}
		for i := range r.transcript {
			if r.transcript[i] != ref.transcript[i] {
				return fmt.Errorf("engines disagree at transcript entry %d:\n  %s: %s\n  %s: %s", i, c.Engines[0], ref.transcript[i], eng, r.transcript[i])
			}
		}
		if len(r.events) != len(ref.events) {
			return fmt.Errorf("event streams differ in length: %s %d, %s %d", c.Engines[0], len(ref.events), eng, len(r.events))
		}
		for i := range r.events {
			if r.events[i] != ref.events[i] {
				return fmt.Errorf("engines disagree at event %d:\n  %s: %s\n  %s: %s", i, c.Engines[0], ref.events[i], eng, r.events[i])
			}
		}
	}
	for k := range ref.special {
		st.Label(k)
	}
	st.Labelf("engines:%d", len(c.Engines))
	if ref.special["guarded-op-on-key-without-index"] && ref.special["create-over-tombstone"] {
		st.Nontrivial()
	}
	return nil
}

func probeC12GuardedUpdateMissing() (bool, string) {
	outs := map[string]string{}
	for _, eng := range []string{EngMem, EngTiKV} {
		env, err := NewSeqEnv(SeqOpts{Engine: eng, Keys: []string{FullKey("a")}})
		if err != nil {
			return false, err.Error()
		}
		r, err := env.B.Update(env.Ctx, &proto.UpdateRequest{Kv: &proto.KeyValue{Key: []byte(FullKey("a")), Value: []byte("v"), Revision: 900}})
		outs[eng] = fmt.Sprintf("err=%v succeeded=%v", err != nil, r.GetSucceeded())
		env.Close()
	}
	if outs[EngMem] != outs[EngTiKV] {
		return true, fmt.Sprintf("guarded update of a missing key: memkv %s, tikv %s", outs[EngMem], outs[EngTiKV])
	}
	return false, ""
}

var specC12 = &Spec{
	ID:   "C12",
	Rule: "case = 2..5 prefix-related keys, 5..30 steps (writes with every expected-revision class on existing / missing / deleted / compacted keys, compactions, point / range / count reads) plus one watch from the first revision, executed with the same initial revision on every engine; oracle = pairwise identical normalised transcripts and event streams, each additionally judged against the reference MVCC model; non-trivial = history contains a guarded update or delete on a key with no index record and a create over a tombstone; distinct = SHA-1 of the case",
	Gen:  genC12,
	New:  func() interface{} { return &c12Case{} },
	Run:  runC12,
	Probes: map[string]func() (bool, string){
		"tikv-guarded-update-missing-key": probeC12GuardedUpdateMissing,
	},
	Engines: []string{EngMem, EngTiKV, EngMemMetrics, EngBadger, EngBadgerMet},
}

func TestC12(t *testing.T) { RunProperty(t, specC12) }
