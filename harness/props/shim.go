package props

// Shim: a test double around any storage.KvStorage, on the harness side of the exported interface.
// It records an op log, can park callers at gates, injects faults, overrides partitions and TTL support.

import (
	"bytes"
	"context"
	"fmt"
	"sync"

	"github.com/kubewharf/kubebrain/pkg/backend/coder"
	"github.com/kubewharf/kubebrain/pkg/storage"
)

// BatchOp is one buffered operation of a write batch
type BatchOp struct {
	Kind string // pine | cas | put | del | delcur
	Key  []byte
	Val  []byte
	Old  []byte
	TTL  int64
	It   storage.Iter
}

// Decision says what the shim does with a call
type Decision int

const (
	// Pass lets the call through
	Pass Decision = iota
	// FailNoApply returns an error without applying
	FailNoApply
	// UncertainApplied applies the call and returns an unknown-outcome error
	UncertainApplied
	// UncertainNotApplied does not apply and returns an unknown-outcome error
	UncertainNotApplied
	// FailCAS returns a condition failure without applying
	FailCAS
)

// ErrInjected is the plain storage error injected by the shim
var ErrInjected = fmt.Errorf("injected storage error")

// CommitInfo describes a batch at commit time
type CommitInfo struct {
	Seq    int // global commit index (0-based) among commits seen by this shim
	Client int
	Ops    []BatchOp
	// decoded (rawKey, rev) of the version record in the batch, if any
	RawKey []byte
	Rev    uint64
}

// Shim wraps a KvStorage
type Shim struct {
	Inner storage.KvStorage
	// BufferBatches makes BeginBatchWrite lock-free: ops are buffered and replayed on the inner store at Commit
	// (needed for memkv whose BeginBatchWrite holds the store mutex until Commit)
	BufferBatches bool

	// Gate, if set, is called before every storage call made with a context (point name, ctx, detail)
	Gate func(ctx context.Context, point string, detail interface{})
	// OnCommit decides the fate of a batch commit
	OnCommit func(ci *CommitInfo) Decision
	// AfterCommit is called with the result of every commit
	AfterCommit func(ci *CommitInfo, err error)
	// OnDelete decides the fate of the idx-th Del/DelCurrent (0-based)
	OnDelete func(idx int, key []byte, current bool) Decision
	// OnIter decides the fate of an Iter call
	OnIter func(idx int) Decision
	// OnGet decides the fate of a Get call
	OnGet func(idx int, key []byte) Decision
	// OnTSO decides the fate of a GetTimestampOracle call
	OnTSO func(idx int) Decision
	// OnNext decides the fate of the pos-th Next (0-based) of the iterIdx-th iterator opened through this shim
	OnNext func(iterIdx, pos int) Decision
	// Partitions overrides GetPartitions if set
	Partitions func(start, end []byte) []storage.Partition
	// TTL overrides SupportTTL if non-nil
	TTL *bool
	// FixedClient, if >= 0, attributes every call of this shim to that client id (for callers that drop the context)
	FixedClient int
	// AttributeDeletesTo, if >= 0, attributes Del/DelCurrent calls that carry no client id to that client
	// (the compaction deletes use context.Background())
	AttributeDeletesTo int
	// OnGetResult observes the result of every Get
	OnGetResult func(client int, key, val []byte, err error)

	mu       sync.Mutex
	nCommit  int
	nDelete  int
	nIter    int
	nGet     int
	nTSO     int
	Commits  []*CommitInfo // successful or uncertain-applied commits, in order
	Attempts []*CommitInfo // every commit attempt
	DelLog   [][]byte
}

var shimCoder = coder.NewNormalCoder()

// NewShim wraps inner; buffer should be true for memkv
func NewShim(inner storage.KvStorage, buffer bool) *Shim {
	return &Shim{Inner: inner, BufferBatches: buffer, FixedClient: -1, AttributeDeletesTo: -1}
}

func (s *Shim) gate(ctx context.Context, point string, detail interface{}) {
	if s.Gate != nil {
		if s.FixedClient >= 0 {
			ctx = ClientCtx(s.FixedClient)
		} else if s.AttributeDeletesTo >= 0 && (point == "del" || point == "delcur") && ClientOf(ctx) < 0 {
			ctx = ClientCtx(s.AttributeDeletesTo)
		}
		s.Gate(ctx, point, detail)
	}
}

func (s *Shim) clientOf(ctx context.Context) int {
	if s.FixedClient >= 0 {
		return s.FixedClient
	}
	return ClientOf(ctx)
}

// GetTimestampOracle implements storage.KvStorage
func (s *Shim) GetTimestampOracle(ctx context.Context) (uint64, error) {
	s.mu.Lock()
	idx := s.nTSO
	s.nTSO++
	s.mu.Unlock()
	if s.OnTSO != nil && s.OnTSO(idx) != Pass {
		return 0, ErrInjected
	}
	return s.Inner.GetTimestampOracle(ctx)
}

// GetPartitions implements storage.KvStorage
func (s *Shim) GetPartitions(ctx context.Context, start, end []byte) ([]storage.Partition, error) {
	if s.Partitions != nil {
		return s.Partitions(start, end), nil
	}
	return s.Inner.GetPartitions(ctx, start, end)
}

// Get implements storage.KvStorage
func (s *Shim) Get(ctx context.Context, key []byte) ([]byte, error) {
	s.gate(ctx, "get", key)
	s.mu.Lock()
	idx := s.nGet
	s.nGet++
	s.mu.Unlock()
	if s.OnGet != nil && s.OnGet(idx, key) != Pass {
		return nil, ErrInjected
	}
	v, err := s.Inner.Get(ctx, key)
	if s.OnGetResult != nil {
		s.OnGetResult(s.clientOf(ctx), key, v, err)
	}
	return v, err
}

type shimIter struct {
	storage.Iter
	s   *Shim
	idx int
	pos int
}

// Next implements storage.Iter
func (it *shimIter) Next(ctx context.Context) error {
	pos := it.pos
	it.pos++
	if it.s != nil && it.s.OnNext != nil && it.s.OnNext(it.idx, pos) != Pass {
		return ErrInjected
	}
	return it.Iter.Next(ctx)
}

// Iter implements storage.KvStorage
func (s *Shim) Iter(ctx context.Context, start []byte, end []byte, timestamp uint64, limit uint64) (storage.Iter, error) {
	s.gate(ctx, "iter", start)
	s.mu.Lock()
	idx := s.nIter
	s.nIter++
	s.mu.Unlock()
	if s.OnIter != nil && s.OnIter(idx) != Pass {
		return nil, ErrInjected
	}
	it, err := s.Inner.Iter(ctx, start, end, timestamp, limit)
	if err != nil {
		return nil, err
	}
	return &shimIter{Iter: it, s: s, idx: idx}, nil
}

func unwrapIter(it storage.Iter) storage.Iter {
	if si, ok := it.(*shimIter); ok {
		return si.Iter
	}
	return it
}

func (s *Shim) deleteDecision(key []byte, current bool) Decision {
	s.mu.Lock()
	idx := s.nDelete
	s.nDelete++
	s.DelLog = append(s.DelLog, append([]byte(nil), key...))
	s.mu.Unlock()
	if s.OnDelete != nil {
		return s.OnDelete(idx, key, current)
	}
	return Pass
}

// Del implements storage.KvStorage
func (s *Shim) Del(ctx context.Context, key []byte) error {
	s.gate(ctx, "del", key)
	switch s.deleteDecision(key, false) {
	case FailNoApply:
		return ErrInjected
	case FailCAS:
		return storage.ErrCASFailed
	case UncertainNotApplied:
		return storage.NewErrUncertainResult(context.DeadlineExceeded)
	case UncertainApplied:
		_ = s.Inner.Del(ctx, key)
		return storage.NewErrUncertainResult(context.DeadlineExceeded)
	}
	return s.Inner.Del(ctx, key)
}

// DelCurrent implements storage.KvStorage
func (s *Shim) DelCurrent(ctx context.Context, it storage.Iter) error {
	key := it.Key()
	s.gate(ctx, "delcur", key)
	switch s.deleteDecision(key, true) {
	case FailNoApply:
		return ErrInjected
	case FailCAS:
		return storage.ErrCASFailed
	case UncertainNotApplied:
		return storage.NewErrUncertainResult(context.DeadlineExceeded)
	case UncertainApplied:
		_ = s.Inner.DelCurrent(ctx, unwrapIter(it))
		return storage.NewErrUncertainResult(context.DeadlineExceeded)
	}
	return s.Inner.DelCurrent(ctx, unwrapIter(it))
}

// SupportTTL implements storage.KvStorage
func (s *Shim) SupportTTL() bool {
	if s.TTL != nil {
		return *s.TTL
	}
	return s.Inner.SupportTTL()
}

// Close implements storage.KvStorage
func (s *Shim) Close() error { return s.Inner.Close() }

// BeginBatchWrite implements storage.KvStorage
func (s *Shim) BeginBatchWrite() storage.BatchWrite {
	b := &shimBatch{s: s}
	if !s.BufferBatches {
		b.inner = s.Inner.BeginBatchWrite()
	}
	return b
}

type shimBatch struct {
	s     *Shim
	inner storage.BatchWrite
	ops   []BatchOp
}

func cp(b []byte) []byte {
	if b == nil {
		return nil
	}
	return append([]byte{}, b...)
}

func (b *shimBatch) PutIfNotExist(key []byte, val []byte, ttl int64) {
	if b.s.TTL != nil && !*b.s.TTL {
		ttl = 0 // an engine without TTL support ignores the argument
	}
	b.ops = append(b.ops, BatchOp{Kind: "pine", Key: cp(key), Val: cp(val), TTL: ttl})
	if b.inner != nil {
		b.inner.PutIfNotExist(key, val, ttl)
	}
}

func (b *shimBatch) CAS(key []byte, newVal []byte, oldVal []byte, ttl int64) {
	if b.s.TTL != nil && !*b.s.TTL {
		ttl = 0 // an engine without TTL support ignores the argument
	}
	b.ops = append(b.ops, BatchOp{Kind: "cas", Key: cp(key), Val: cp(newVal), Old: cp(oldVal), TTL: ttl})
	if b.inner != nil {
		b.inner.CAS(key, newVal, oldVal, ttl)
	}
}

func (b *shimBatch) Put(key []byte, val []byte, ttl int64) {
	if b.s.TTL != nil && !*b.s.TTL {
		ttl = 0 // an engine without TTL support ignores the argument
	}
	b.ops = append(b.ops, BatchOp{Kind: "put", Key: cp(key), Val: cp(val), TTL: ttl})
	if b.inner != nil {
		b.inner.Put(key, val, ttl)
	}
}

func (b *shimBatch) Del(key []byte) {
	b.ops = append(b.ops, BatchOp{Kind: "del", Key: cp(key)})
	if b.inner != nil {
		b.inner.Del(key)
	}
}

func (b *shimBatch) DelCurrent(it storage.Iter) {
	b.ops = append(b.ops, BatchOp{Kind: "delcur", Key: cp(it.Key()), It: unwrapIter(it)})
	if b.inner != nil {
		b.inner.DelCurrent(unwrapIter(it))
	}
}

func (b *shimBatch) apply(ctx context.Context) error {
	if b.inner != nil {
		return b.inner.Commit(ctx)
	}
	ib := b.s.Inner.BeginBatchWrite()
	for _, op := range b.ops {
		switch op.Kind {
		case "pine":
			ib.PutIfNotExist(op.Key, op.Val, op.TTL)
		case "cas":
			ib.CAS(op.Key, op.Val, op.Old, op.TTL)
		case "put":
			ib.Put(op.Key, op.Val, op.TTL)
		case "del":
			ib.Del(op.Key)
		case "delcur":
			ib.DelCurrent(op.It)
		}
	}
	return ib.Commit(ctx)
}

// discard releases the inner batch without applying (commit of a pass-through batch that must not apply)
func (b *shimBatch) discard() {
	if b.inner == nil {
		return
	}
	// the only portable way to release an engine batch is to commit it with a cancelled precondition:
	// add a condition that cannot hold. PutIfNotExist on a key just written by the batch itself is engine
	// dependent, so instead rely on a context that is already cancelled where the engine honours it, and
	// otherwise on a CAS against impossible bytes.
	b.inner.CAS([]byte("\x00verif-never"), []byte{1}, []byte{2}, 0)
	ctx, cancel := context.WithCancel(context.Background())
	cancel()
	_ = b.inner.Commit(ctx)
}

func (b *shimBatch) Commit(ctx context.Context) error {
	s := b.s
	ci := &CommitInfo{Client: s.clientOf(ctx), Ops: b.ops}
	for _, op := range b.ops {
		if op.Kind == "put" && len(op.Key) >= 13 {
			if raw, rev, err := shimCoder.Decode(op.Key); err == nil && rev != 0 {
				ci.RawKey, ci.Rev = raw, rev
			}
		}
	}
	s.gate(ctx, "commit", ci)
	s.mu.Lock()
	ci.Seq = s.nCommit
	s.nCommit++
	s.Attempts = append(s.Attempts, ci)
	s.mu.Unlock()
	d := Pass
	if s.OnCommit != nil {
		d = s.OnCommit(ci)
	}
	var err error
	switch d {
	case Pass:
		err = b.apply(ctx)
	case FailNoApply:
		b.discard()
		err = ErrInjected
	case FailCAS:
		b.discard()
		err = storage.ErrCASFailed
	case UncertainNotApplied:
		b.discard()
		err = storage.NewErrUncertainResult(context.DeadlineExceeded)
	case UncertainApplied:
		err = b.apply(ctx)
		if err == nil {
			s.mu.Lock()
			s.Commits = append(s.Commits, ci)
			s.mu.Unlock()
			err = storage.NewErrUncertainResult(context.DeadlineExceeded)
			if s.AfterCommit != nil {
				s.AfterCommit(ci, err)
			}
			return err
		}
	}
	if err == nil {
		s.mu.Lock()
		s.Commits = append(s.Commits, ci)
		s.mu.Unlock()
	}
	if s.AfterCommit != nil {
		s.AfterCommit(ci, err)
	}
	return err
}

// RawKV is one stored record
type RawKV struct {
	Key []byte
	Val []byte
}

// DumpAll reads every record of a store in key order
func DumpAll(kv storage.KvStorage) ([]RawKV, error) {
	it, err := kv.Iter(context.Background(), []byte{0}, bytes.Repeat([]byte{0xff}, 64), 0, 0)
	if err != nil {
		return nil, err
	}
	defer it.Close()
	var out []RawKV
	for {
		if err := it.Next(context.Background()); err != nil {
			break
		}
		out = append(out, RawKV{Key: cp(it.Key()), Val: cp(it.Val())})
	}
	return out, nil
}
