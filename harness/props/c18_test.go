package props

import (
	"context"
	"encoding/json"
	"fmt"
	"net/http"
	"net/http/httptest"
	"strings"
	"sync"
	"sync/atomic"
	"testing"
	"time"

	"go.etcd.io/etcd/api/v3/etcdserverpb"
	"go.etcd.io/etcd/api/v3/mvccpb"
	"google.golang.org/grpc/codes"
	"google.golang.org/grpc/status"
	"k8s.io/client-go/tools/leaderelection/resourcelock"
	"pgregory.net/rapid"

	proto "github.com/kubewharf/kubebrain-client/api/v2rpc"

	"github.com/kubewharf/kubebrain/pkg/backend"
	"github.com/kubewharf/kubebrain/pkg/server/brain"
	"github.com/kubewharf/kubebrain/pkg/server/etcd"
	"github.com/kubewharf/kubebrain/pkg/server/service/leader"
	"github.com/kubewharf/kubebrain/pkg/server/service/revision"
)

// C18 — only the leader writes and streams; followers read at its revision or fail

// recBackend records every call and delegates to a real backend
type recBackend struct {
	inner backend.Backend
	mu    sync.Mutex
	calls []string
	revs  []uint64 // argument of SetCurrentRevision calls, aligned with calls
}

func (r *recBackend) rec(name string, rev uint64) {
	r.mu.Lock()
	r.calls = append(r.calls, name)
	r.revs = append(r.revs, rev)
	r.mu.Unlock()
}

func (r *recBackend) saw(name string) bool {
	r.mu.Lock()
	defer r.mu.Unlock()
	for _, c := range r.calls {
		if c == name {
			return true
		}
	}
	return false
}

func (r *recBackend) take() ([]string, []uint64) {
	r.mu.Lock()
	defer r.mu.Unlock()
	c, v := r.calls, r.revs
	r.calls, r.revs = nil, nil
	return c, v
}

func (r *recBackend) Create(ctx context.Context, q *proto.CreateRequest) (*proto.CreateResponse, error) {
	r.rec("Create", 0)
	return r.inner.Create(ctx, q)
}
func (r *recBackend) Update(ctx context.Context, q *proto.UpdateRequest) (*proto.UpdateResponse, error) {
	r.rec("Update", 0)
	return r.inner.Update(ctx, q)
}
func (r *recBackend) Delete(ctx context.Context, q *proto.DeleteRequest) (*proto.DeleteResponse, error) {
	r.rec("Delete", 0)
	return r.inner.Delete(ctx, q)
}
func (r *recBackend) Compact(ctx context.Context, rev uint64) (*proto.CompactResponse, error) {
	r.rec("Compact", 0)
	return r.inner.Compact(ctx, rev)
}
func (r *recBackend) Get(ctx context.Context, q *proto.GetRequest) (*proto.GetResponse, error) {
	r.rec("Get", 0)
	return r.inner.Get(ctx, q)
}
func (r *recBackend) List(ctx context.Context, q *proto.RangeRequest) (*proto.RangeResponse, error) {
	r.rec("List", 0)
	return r.inner.List(ctx, q)
}
func (r *recBackend) Count(ctx context.Context, q *proto.CountRequest) (*proto.CountResponse, error) {
	r.rec("Count", 0)
	return r.inner.Count(ctx, q)
}
func (r *recBackend) GetPartitions(ctx context.Context, q *proto.ListPartitionRequest) (*proto.ListPartitionResponse, error) {
	r.rec("GetPartitions", 0)
	return r.inner.GetPartitions(ctx, q)
}
func (r *recBackend) ListByStream(ctx context.Context, s, e []byte, rev uint64) (<-chan *proto.StreamRangeResponse, error) {
	r.rec("ListByStream", 0)
	return r.inner.ListByStream(ctx, s, e, rev)
}
func (r *recBackend) Watch(ctx context.Context, key string, rev uint64) (<-chan []*proto.Event, error) {
	r.rec("Watch", 0)
	return r.inner.Watch(ctx, key, rev)
}
func (r *recBackend) GetResourceLock() resourcelock.Interface { return r.inner.GetResourceLock() }
func (r *recBackend) GetCurrentRevision() uint64              { return r.inner.GetCurrentRevision() }
func (r *recBackend) SetCurrentRevision(rev uint64) {
	r.rec("SetCurrentRevision", rev)
	r.inner.SetCurrentRevision(rev)
}

type recProxy struct {
	enabled bool
	mu      sync.Mutex
	txns    int
	watches int
}

func (p *recProxy) EtcdProxyEnabled() bool { return p.enabled }
func (p *recProxy) watchCount() int {
	p.mu.Lock()
	defer p.mu.Unlock()
	return p.watches
}
func (p *recProxy) Txn(ctx context.Context, txn *etcdserverpb.TxnRequest) (*etcdserverpb.TxnResponse, error) {
	p.mu.Lock()
	p.txns++
	p.mu.Unlock()
	return &etcdserverpb.TxnResponse{Header: &etcdserverpb.ResponseHeader{Revision: 424242}, Succeeded: true}, nil
}
func (p *recProxy) Watch(ctx context.Context, key string, rev uint64) (<-chan []*mvccpb.Event, error) {
	p.mu.Lock()
	p.watches++
	p.mu.Unlock()
	ch := make(chan []*mvccpb.Event)
	go func() { <-ctx.Done(); close(ch) }()
	return ch, nil
}

type c18Peers struct {
	leader.LeaderElection
	revision.RevisionSyncer
	*recProxy
}

type c18Req struct {
	API  string `json:"api"`  // etcd | brain
	Kind string `json:"kind"` // get list count partitions stream create update delete udelete compact watch put deleterange
	K    int    `json:"key"`
	Exp  string `json:"exp,omitempty"`
	// AtRev (get / list): "" = latest; "own" = pinned to the revision this node currently has; "older" = one below
	// (what a paginated list or a consistent re-read sends). Pinned or not, a follower has to ask the leader first
	AtRev string `json:"atrev,omitempty"`
	// AdvanceLeader: the leader commits this many further revisions before the request is invoked
	AdvanceLeader int `json:"advance,omitempty"`
	// Overlap: issue this many copies of a read concurrently while the leader's /status answer is delayed, so that
	// they overlap in the revision fetch (the leader's revision does not move meanwhile)
	Overlap int `json:"overlap,omitempty"`
}

type c18Case struct {
	Role        string // leader | follower
	Proxy       bool
	LeaderState string // ok | down | 400 | 500 | truncated (answer cut off after the header) | noleader (the lock description names no holder: "empty" or "")
	Reqs        []c18Req
}

var c18Reads = []string{"get", "list", "count", "partitions", "stream"}
var c18Writes = []string{"create", "update", "delete", "udelete", "compact"}

func genC18(t *rapid.T) interface{} {
	c := &c18Case{Role: rapid.SampledFrom([]string{"follower", "follower", "follower", "leader"}).Draw(t, "role")}
	c.Proxy = DrawBool(t, 40, "proxy")
	c.LeaderState = rapid.SampledFrom([]string{"ok", "ok", "ok", "down", "400", "500", "truncated", "noleader", "noleader-blank", "foreign"}).Draw(t, "leaderState")
	n := rapid.IntRange(3, 20).Draw(t, "nreqs")
	for i := 0; i < n; i++ {
		r := c18Req{API: rapid.SampledFrom([]string{"etcd", "brain"}).Draw(t, "api"), K: DrawIntn(t, 4, "key")}
		switch rapid.IntRange(0, 9).Draw(t, "class") {
		case 0, 1, 2, 3:
			r.Kind = rapid.SampledFrom(c18Reads).Draw(t, "read")
			if r.Kind == "get" || r.Kind == "list" {
				r.AtRev = rapid.SampledFrom([]string{"", "", "own", "older"}).Draw(t, "atRev")
			}
		case 4, 5, 6, 7:
			r.Kind = rapid.SampledFrom(c18Writes).Draw(t, "write")
			r.Exp = rapid.SampledFrom([]string{"ok", "stale", "zero"}).Draw(t, "exp")
		case 8:
			r.Kind = "watch"
		default:
			r.Kind = rapid.SampledFrom([]string{"put", "deleterange", "etcdcompact"}).Draw(t, "other")
			r.API = "etcd"
		}
		r.AdvanceLeader = rapid.SampledFrom([]int{0, 0, 1, 3}).Draw(t, "advance")
		if isRead(r.Kind) && r.Kind != "stream" && DrawBool(t, 15, "overlap") {
			r.Overlap = rapid.IntRange(2, 3).Draw(t, "noverlap")
		}
		c.Reqs = append(c.Reqs, r)
	}
	return c
}

type c18Node struct {
	handle    *DetachableBackend
	env       *SeqEnv
	rec       *recBackend
	proxy     *recProxy
	etcdSrv   *etcd.RPCServer
	brainSrv  *brain.Server
	leaderRev uint64 // what the (scripted) leader reports on /status
	httpHits  int64
	state     atomic.Value // ok | 400 | 500
	srv       *httptest.Server
	// optional scripted delay between the leader computing its answer and sending it
	computed chan struct{}
	release  chan struct{}
	delayOn  int32
}

func newC18Node(role string, proxy bool, leaderState string) (*c18Node, error) {
	keys := []string{FullKey("a"), FullKey("b"), FullKey("c/d"), FullKey("e")}
	env, err := NewSeqEnv(SeqOpts{Engine: EngMem, Keys: keys, Backend: BackendOpts{Etcd: true, CacheSize: 1024}})
	if err != nil {
		return nil, err
	}
	handle := NewDetachable(env.B) // brain.New's background loop would keep the real backend alive for ever
	n := &c18Node{env: env, rec: &recBackend{inner: handle}, proxy: &recProxy{enabled: proxy}, handle: handle}
	n.state.Store(leaderState)
	n.srv = httptest.NewServer(http.HandlerFunc(func(w http.ResponseWriter, req *http.Request) {
		atomic.AddInt64(&n.httpHits, 1)
		if req.URL.Path != "/status" {
			w.WriteHeader(404)
			return
		}
		switch n.state.Load().(string) {
		case "400":
			w.WriteHeader(400)
			_, _ = w.Write([]byte("i'm not leader, so can't tell you revision"))
			return
		case "500":
			w.WriteHeader(500)
			return
		case "foreign":
			// whatever answers at the leader's address is not the leader (an address taken over by another service, a
			// load balancer's page): status 200, but no revision in it
			w.WriteHeader(200)
			_, _ = w.Write([]byte("<html><body>It works!</body></html>"))
			return
		case "truncated":
			// the connection to the leader dies after the 200 header, before the whole body has arrived
			body, _ := json.Marshal(&revision.LeaderRevision{Revision: atomic.LoadUint64(&n.leaderRev)})
			w.Header().Set("Content-Length", fmt.Sprint(len(body)))
			w.WriteHeader(200)
			_, _ = w.Write(body[:len(body)/2])
			if f, ok := w.(http.Flusher); ok {
				f.Flush()
			}
			panic(http.ErrAbortHandler)
		}
		rev := atomic.LoadUint64(&n.leaderRev) // the leader computes its answer ...
		if atomic.LoadInt32(&n.delayOn) == 1 {
			n.computed <- struct{}{}
			<-n.release // ... and the answer travels
		}
		body, _ := json.Marshal(&revision.LeaderRevision{Revision: rev})
		w.WriteHeader(200)
		_, _ = w.Write(body)
	}))
	addr := strings.TrimPrefix(n.srv.URL, "http://")
	if leaderState == "noleader" || leaderState == "noleader-blank" {
		n.srv.Close()
		addr = "empty" // what the lock description yields when the record names no holder
		if leaderState == "noleader-blank" {
			addr = ""
		}
	}
	if leaderState == "down" {
		n.srv.Close()
		// an address nobody listens on (a freed ephemeral port could be taken by a server of a parallel shard)
		addr = "127.0.0.1:1"
	}
	stub := &leader.Stub{ElectionInfo: leader.ElectionInfo{LeaderAddress: addr, IsLeader: role == "leader"}}
	peers := &c18Peers{LeaderElection: stub, RevisionSyncer: revision.NewRevisionSyncer(n.rec, NopMetrics, stub, nil), recProxy: n.proxy}
	n.etcdSrv = etcd.New(n.rec, NopMetrics, peers)
	n.brainSrv = brain.New(n.rec, NopMetrics, peers)
	return n, nil
}

func (n *c18Node) close() {
	if st := n.state.Load().(string); st != "down" && st != "noleader" && st != "noleader-blank" {
		n.srv.Close()
	}
	n.env.Close()
	n.handle.Detach()
}

// issue performs one request through the gRPC handler objects; returns (error, whether a response object came back)
func (n *c18Node) issue(r c18Req, exp int64, val []byte) (err error, proxied bool) {
	ctx := context.Background()
	key := []byte(n.env.Keys[r.K%len(n.env.Keys)])
	end := backend.PrefixEnd([]byte(Prefix + "/"))
	t0, w0 := n.proxy.txns, n.proxy.watches
	var atRev uint64
	switch r.AtRev {
	case "own":
		atRev = n.env.B.GetCurrentRevision()
	case "older":
		if cur := n.env.B.GetCurrentRevision(); cur > n.env.Init+1 {
			atRev = cur - 1
		}
	}
	switch r.API + ":" + r.Kind {
	case "etcd:get":
		_, err = n.etcdSrv.Range(ctx, &etcdserverpb.RangeRequest{Key: key, Revision: int64(atRev)})
	case "etcd:list":
		_, err = n.etcdSrv.Range(ctx, &etcdserverpb.RangeRequest{Key: []byte(Prefix + "/"), RangeEnd: end, Revision: int64(atRev)})
	case "etcd:count":
		_, err = n.etcdSrv.Range(ctx, &etcdserverpb.RangeRequest{Key: []byte(Prefix + "/"), RangeEnd: end, CountOnly: true})
	case "etcd:partitions":
		_, err = n.etcdSrv.Range(ctx, &etcdserverpb.RangeRequest{Key: []byte(Prefix + "/"), RangeEnd: end, Revision: etcd.GetPartitionMagic})
	case "etcd:stream", "etcd:watch":
		ws := NewFakeEtcdWatchStream()
		done := make(chan error, 1)
		go func() { done <- n.etcdSrv.Watch(ws) }()
		cr := &etcdserverpb.WatchCreateRequest{Key: []byte(Prefix + "/"), RangeEnd: end, StartRevision: 0}
		if r.Kind == "stream" {
			// a range stream: negative start revision, internal keys
			cr = &etcdserverpb.WatchCreateRequest{Key: shimCoder.EncodeObjectKey([]byte(Prefix+"/"), 0), RangeEnd: shimCoder.EncodeObjectKey(end, 0), StartRevision: -int64(maxU64(n.env.B.GetCurrentRevision(), 1))}
		}
		ws.In <- &etcdserverpb.WatchRequest{RequestUnion: &etcdserverpb.WatchRequest_CreateRequest{CreateRequest: cr}}
		// collect until the handler ends, a cancel response arrives, the stream's eof marker arrives, or 300 ms pass
		var rejected error
		// the handler decides at its first Recv: it either returns (rejection) or acknowledges the watch; wait for
		// that decision without a tight deadline, then give the asynchronous part a short while
		timeout := time.After(10 * time.Second)
		acked := false
	loop:
		for {
			select {
			case e := <-done:
				rejected = e
				break loop
			case resp := <-ws.Out:
				acked = true
				if resp.Canceled {
					rejected = fmt.Errorf("cancelled: %s", resp.CancelReason)
					break loop
				}
				if resp.Header != nil && resp.Header.Revision == -1 {
					// eof marker of a range stream; a non-empty value is an error text
					if len(resp.Events) == 1 && len(resp.Events[0].Kv.Value) > 0 {
						rejected = fmt.Errorf("stream error: %s", resp.Events[0].Kv.Value)
					}
					break loop
				}
			case <-timeout:
				break loop
			case <-time.After(200 * time.Microsecond):
				// a live watch never ends by itself: it is decided once the handler has handed it to the backend
				// or to the proxy
				if r.Kind == "watch" && acked && (n.proxy.watchCount() > w0 || n.rec.saw("Watch")) {
					break loop
				}
			}
		}
		ws.Close()
		err = rejected
	case "etcd:create":
		_, err = n.etcdSrv.Txn(ctx, txnCreate(key, val))
	case "etcd:update":
		_, err = n.etcdSrv.Txn(ctx, txnUpdate(key, val, exp))
	case "etcd:delete":
		if exp == 0 {
			exp = 1
		}
		_, err = n.etcdSrv.Txn(ctx, txnDelete(key, exp))
	case "etcd:udelete":
		_, err = n.etcdSrv.Txn(ctx, txnUnguardedDelete(key))
	case "etcd:compact":
		_, err = n.etcdSrv.Txn(ctx, &etcdserverpb.TxnRequest{
			Compare: []*etcdserverpb.Compare{{Result: etcdserverpb.Compare_EQUAL, Target: etcdserverpb.Compare_VERSION, Key: []byte("compact_rev_key"), TargetUnion: &etcdserverpb.Compare_Version{Version: 1}}},
			Success: []*etcdserverpb.RequestOp{opPut([]byte("compact_rev_key"), []byte("1"))}, Failure: []*etcdserverpb.RequestOp{opGet([]byte("compact_rev_key"))}})
	case "etcd:put":
		_, err = n.etcdSrv.Put(ctx, &etcdserverpb.PutRequest{Key: key, Value: val})
	case "etcd:deleterange":
		_, err = n.etcdSrv.DeleteRange(ctx, &etcdserverpb.DeleteRangeRequest{Key: key})
	case "etcd:etcdcompact":
		_, err = n.etcdSrv.Compact(ctx, &etcdserverpb.CompactionRequest{Revision: 5})
	case "brain:get":
		_, err = n.brainSrv.Get(ctx, &proto.GetRequest{Key: key, Revision: atRev})
	case "brain:list":
		_, err = n.brainSrv.Range(ctx, &proto.RangeRequest{Key: []byte(Prefix + "/"), End: end, Revision: atRev})
	case "brain:count":
		_, err = n.brainSrv.Count(ctx, &proto.CountRequest{Key: []byte(Prefix + "/"), End: end})
	case "brain:partitions":
		_, err = n.brainSrv.ListPartition(ctx, &proto.ListPartitionRequest{Key: []byte(Prefix + "/"), End: end})
	case "brain:stream":
		fs := NewFakeBrainRangeStream()
		err = n.brainSrv.RangeStream(&proto.RangeRequest{Key: shimCoder.EncodeObjectKey([]byte(Prefix+"/"), 0), End: shimCoder.EncodeObjectKey(end, 0)}, fs)
		fs.Close()
	case "brain:create":
		_, err = n.brainSrv.Create(ctx, &proto.CreateRequest{Key: key, Value: val})
	case "brain:update":
		_, err = n.brainSrv.Update(ctx, &proto.UpdateRequest{Kv: &proto.KeyValue{Key: key, Value: val, Revision: uint64(exp)}})
	case "brain:delete", "brain:udelete":
		if r.Kind == "udelete" {
			exp = 0
		}
		_, err = n.brainSrv.Delete(ctx, &proto.DeleteRequest{Key: key, Revision: uint64(exp)})
	case "brain:compact":
		_, err = n.brainSrv.Compact(ctx, &proto.CompactRequest{Revision: maxU64(n.env.B.GetCurrentRevision(), 1)})
	case "brain:watch":
		fs := NewFakeBrainWatchStream()
		done := make(chan error, 1)
		go func() { done <- n.brainSrv.Watch(&proto.WatchRequest{Key: []byte(Prefix + "/")}, fs) }()
		// the handler decides at once: it returns (refusal), or it hands the watch to the backend (served locally);
		// wait for one of the two without a tight deadline
		finished := false
		deadline := time.After(10 * time.Second)
	bwait:
		for {
			select {
			case err = <-done:
				finished = true
				break bwait
			case <-deadline:
				break bwait
			case <-time.After(200 * time.Microsecond):
				if n.rec.saw("Watch") {
					break bwait
				}
			}
		}
		fs.Close()
		if !finished {
			select {
			case <-done:
			case <-time.After(2 * time.Second):
			}
		}
	default:
		err = fmt.Errorf("harness: unknown request %s:%s", r.API, r.Kind)
	}
	return err, n.proxy.txns > t0 || n.proxy.watches > w0
}

var c18WriteMethods = map[string]bool{"Create": true, "Update": true, "Delete": true, "Compact": true}
var c18ReadMethods = map[string]bool{"Get": true, "List": true, "Count": true, "GetPartitions": true, "ListByStream": true}

func isRead(kind string) bool {
	for _, k := range c18Reads {
		if k == kind {
			return true
		}
	}
	return false
}

func runC18(ci interface{}, st *CaseStats) error {
	c := ci.(*c18Case)
	n, err := newC18Node(c.Role, c.Proxy, c.LeaderState)
	if err != nil {
		return Inconclusivef("node: %v", err)
	}
	defer n.close()
	st.Label("role:" + c.Role)
	st.Label("leader:" + c.LeaderState)
	// seed some data directly (as the leader would have written it) and let the scripted leader be ahead
	for i := 0; i < 3; i++ {
		if _, err := n.env.DoWrite(WOp{Kind: "create", K: i}); err != nil {
			return Inconclusivef("seed: %v", err)
		}
	}
	_ = n.env.Settle()
	atomic.StoreUint64(&n.leaderRev, n.env.B.GetCurrentRevision())
	n.rec.take()
	advanced, followerWriteWithProxy := false, false
	for ri, r := range c.Reqs {
		if r.AdvanceLeader > 0 && c.Role == "follower" {
			// the leader commits further writes (this node learns about them only through /status)
			for i := 0; i < r.AdvanceLeader; i++ {
				if _, err := n.env.DoWrite(WOp{Kind: "update", K: i % 3, Exp: "ok"}); err != nil {
					return Inconclusivef("advance: %v", err)
				}
			}
			_ = n.env.Settle()
			atomic.StoreUint64(&n.leaderRev, n.env.B.GetCurrentRevision())
			n.rec.take()
			advanced = true
		}
		leaderAtInvocation := atomic.LoadUint64(&n.leaderRev)
		exp, _ := n.env.ResolveExp(WOp{Exp: r.Exp}, n.env.Keys[r.K%len(n.env.Keys)])
		if r.Overlap > 1 && c.Role == "follower" && c.LeaderState == "ok" {
			// overlapping follower reads: all of them must adopt the leader's revision before reading
			n.computed, n.release = make(chan struct{}, 8), make(chan struct{})
			atomic.StoreInt32(&n.delayOn, 1)
			errs := make([]error, r.Overlap)
			var wg sync.WaitGroup
			for i := 0; i < r.Overlap; i++ {
				wg.Add(1)
				go func(i int) {
					defer wg.Done()
					errs[i], _ = n.issue(c18Req{API: r.API, Kind: r.Kind, K: r.K}, 0, nil)
				}(i)
			}
			select {
			case <-n.computed:
			case <-time.After(5 * time.Second):
			}
			time.Sleep(2 * time.Millisecond) // the other reads arrive while the answer is in flight
			atomic.StoreInt32(&n.delayOn, 0)
			close(n.release)
			wg.Wait()
			calls, revs := n.rec.take()
			what := fmt.Sprintf("request %d: %d overlapping %s:%s reads on a follower: backend calls %v, errors %v", ri, r.Overlap, r.API, r.Kind, calls, errs)
			adopted := false
			for i, cl := range calls {
				if cl == "SetCurrentRevision" && revs[i] >= leaderAtInvocation {
					adopted = true
				}
				if c18ReadMethods[cl] && !adopted {
					return fmt.Errorf("%s: a read reached the backend before any of the overlapping reads had adopted the leader's revision %d", what, leaderAtInvocation)
				}
			}
			st.Label("overlapping-follower-reads")
			continue
		}
		rerr, proxied := n.issue(r, int64(exp), []byte(fmt.Sprintf("v%d", ri)))
		calls, revs := n.rec.take()
		what := fmt.Sprintf("request %d %s:%s on a %s (proxy=%v, leader %s): backend calls %v, error %v", ri, r.API, r.Kind, c.Role, c.Proxy, c.LeaderState, calls, rerr)
		if c.Role == "leader" {
			// sanity on the leader: it serves from its own state and never asks anybody
			if atomic.LoadInt64(&n.httpHits) != 0 {
				return fmt.Errorf("%s: the leader fetched a revision from a peer", what)
			}
			continue
		}
		// ---- follower ----
		for _, cl := range calls {
			if c18WriteMethods[cl] {
				return fmt.Errorf("%s: a node that is not leader applied a write", what)
			}
			if cl == "Watch" {
				return fmt.Errorf("%s: a node that is not leader served a watch from its own event history", what)
			}
		}
		switch {
		case isRead(r.Kind):
			readIdx, setIdx := -1, -1
			for i, cl := range calls {
				if c18ReadMethods[cl] && readIdx < 0 {
					readIdx = i
				}
				if cl == "SetCurrentRevision" && setIdx < 0 {
					setIdx = i
				}
			}
			if c.LeaderState != "ok" {
				if rerr == nil {
					return fmt.Errorf("%s: the leader cannot be asked for its revision, yet the read was answered", what)
				}
				if readIdx >= 0 {
					return fmt.Errorf("%s: the leader cannot be asked for its revision, yet the backend was read", what)
				}
				continue
			}
			if rerr != nil {
				// failing is always allowed
				st.Label("follower-read-failed-with-reachable-leader")
				continue
			}
			if readIdx < 0 {
				return fmt.Errorf("%s: read answered without reading the backend", what)
			}
			if setIdx < 0 || setIdx > readIdx {
				return fmt.Errorf("%s: the follower read the backend without first adopting the leader's revision", what)
			}
			if revs[setIdx] < leaderAtInvocation {
				return fmt.Errorf("%s: the follower adopted revision %d, the leader had committed %d before the read began", what, revs[setIdx], leaderAtInvocation)
			}
			if advanced {
				st.Label("follower-read-after-leader-advanced")
			}
		case r.Kind == "watch" || (r.API == "etcd" && r.Kind != "put" && r.Kind != "deleterange" && r.Kind != "etcdcompact") || r.API == "brain":
			// writes and watches: rejected as unavailable, or forwarded (etcd API with the proxy on)
			if r.API == "etcd" && r.Kind == "compact" {
				// the apiserver's compaction transaction is answered locally with a canned "not me" response on the
				// leader; on a follower it must still not touch the backend (checked above)
				continue
			}
			if proxied {
				if !(c.Proxy && r.API == "etcd") {
					return fmt.Errorf("%s: forwarded although forwarding is not enabled for this request", what)
				}
				followerWriteWithProxy = true
				st.Label("follower-request-forwarded")
				continue
			}
			if rerr == nil {
				return fmt.Errorf("%s: a node that is not leader answered a write/watch request itself", what)
			}
			if r.Kind != "watch" || r.API == "brain" {
				if code := status.Code(rerr); code != codes.Unavailable && !strings.Contains(rerr.Error(), "Unavailable") {
					// validation errors (empty fields) come first and are fine; anything else must be Unavailable
					if !strings.Contains(rerr.Error(), "invalid") && !strings.Contains(rerr.Error(), "empty") {
						return fmt.Errorf("%s: rejected with %v, want Unavailable", what, code)
					}
				}
			}
			st.Label("follower-request-rejected")
		}
	}
	if c.Role == "follower" && (advanced || followerWriteWithProxy) {
		st.Nontrivial()
	}
	return nil
}

// probeC18SingleFlight: a follower read that begins after the leader acknowledged a write must not adopt a revision
// the leader computed before that write
// probeC18ForeignAnswer: what answers at the leader's address is not the leader (status 200, no revision in the body)
func probeC18ForeignAnswer() (bool, string) {
	n, err := newC18Node("follower", false, "foreign")
	if err != nil {
		return false, err.Error()
	}
	defer n.close()
	n.rec.take()
	_, gerr := n.brainSrv.Get(context.Background(), &proto.GetRequest{Key: []byte(FullKey("a"))})
	calls, revs := n.rec.take()
	for i, cl := range calls {
		if cl == "SetCurrentRevision" {
			return true, fmt.Sprintf("the follower adopted revision %d from an answer that is not the leader's and served the read (error %v, backend calls %v)", revs[i], gerr, calls)
		}
	}
	if gerr == nil {
		return true, fmt.Sprintf("the read was answered although the leader's revision could not be obtained (backend calls %v)", calls)
	}
	return false, ""
}

func probeC18SingleFlight() (bool, string) {
	n, err := newC18Node("follower", false, "ok")
	if err != nil {
		return false, err.Error()
	}
	defer n.close()
	n.computed, n.release = make(chan struct{}, 4), make(chan struct{})
	atomic.StoreUint64(&n.leaderRev, 2000)
	atomic.StoreInt32(&n.delayOn, 1)
	n.rec.take()
	doneA := make(chan error, 1)
	go func() {
		_, err := n.brainSrv.Get(context.Background(), &proto.GetRequest{Key: []byte(FullKey("a"))})
		doneA <- err
	}()
	select {
	case <-n.computed: // the leader computed 2000 for read A; the answer is on its way
	case <-time.After(5 * time.Second):
		return false, "first fetch never reached the leader"
	}
	atomic.StoreUint64(&n.leaderRev, 2001) // the leader acknowledges a write
	doneB := make(chan error, 1)
	go func() { // read B begins only now
		_, err := n.brainSrv.Get(context.Background(), &proto.GetRequest{Key: []byte(FullKey("a"))})
		doneB <- err
	}()
	// B either joins the fetch in flight (no second hit) or starts its own
	select {
	case <-n.computed:
	case <-time.After(200 * time.Millisecond):
	}
	atomic.StoreInt32(&n.delayOn, 0)
	close(n.release)
	<-doneA
	<-doneB
	calls, revs := n.rec.take()
	var adopted []uint64
	for i, c := range calls {
		if c == "SetCurrentRevision" {
			adopted = append(adopted, revs[i])
		}
	}
	if len(adopted) != 2 {
		return false, fmt.Sprintf("unexpected calls %v", calls)
	}
	if adopted[0] < 2001 && adopted[1] < 2001 {
		return true, fmt.Sprintf("a follower read that began after the leader had committed revision 2001 shared an in-flight revision fetch and was served at revision %d", adopted[1])
	}
	return false, ""
}

var specC18 = &Spec{
	ID:   "C18",
	Rule: "handler level: case = role {leader, follower} x proxy {on, off} x leader {answers, unreachable, answers 400, answers 500, answer cut off after the 200 header, no leader known (lock description names no holder)}; 15% of follower reads are issued 2..3 at a time with the leader's answer delayed so that they overlap in the revision fetch and 3..20 requests drawn from every request type of both APIs (etcd: Range get/list/count/partitions, range-stream watch, the four Txn shapes, the compaction Txn, Watch, Put, DeleteRange, Compact; native: Get, Range, Count, ListPartition, RangeStream, Create, Update, Delete, Compact, Watch), with the scripted leader committing 0..3 further revisions before a request. The handlers are the real etcd.New / brain.New objects over a recording Backend (delegating to a real one), leader.Stub, the real revision.NewRevisionSyncer pointed at an httptest server and a recording proxy. Oracle on a follower: no write method and no Watch of the backend is ever invoked; writes/watches are answered Unavailable or forwarded (etcd API, proxy on); a read calls SetCurrentRevision(x) before reading with x >= the revision the leader had committed when the read was invoked; if the leader is unreachable or answers with an error the read fails and the backend is not read. Non-trivial = follower case in which the leader advanced between reads or a write was forwarded; distinct = SHA-1 of the case",
	Gen:  genC18,
	New:  func() interface{} { return &c18Case{} },
	Run:  runC18,
	Probes: map[string]func() (bool, string){
		"singleflight-shares-fetch-started-before-read":    probeC18SingleFlight,
		"follower-adopts-revision-0-from-a-foreign-answer": probeC18ForeignAnswer,
	},
	Assumptions: []string{
		"the leader is scripted (httptest /status endpoint with the real LeaderRevision JSON); two complete nodes over one store are exercised by the integrated mode (TestC18Nodes)",
	},
	Engines: []string{EngMem},
}

func TestC18(t *testing.T) { RunProperty(t, specC18) }
