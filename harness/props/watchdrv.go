package props

// Deterministic driver for watch registration races: the harness decides, action by action, when the writer writes,
// when the sequencer adds an event to the cache and when it broadcasts, and when each Watch call passes its
// subscription and its cache read (verif hook points H4).

import (
	"context"
	"fmt"
	"sync"
	"time"

	proto "github.com/kubewharf/kubebrain-client/api/v2rpc"

	"github.com/kubewharf/kubebrain/pkg/backend"
	"github.com/kubewharf/kubebrain/pkg/verifhook"
)

type parkedG struct {
	name   string
	resume chan struct{}
}

// WatchDriver controls one backend's sequencer and the Watch calls made through it
type WatchDriver struct {
	B backend.Backend

	mu        sync.Mutex
	seqParked *parkedG // sequencer goroutine parked at collect.*
	seqSignal chan struct{}
	advancing *DrivenWatch
	// LastWriteRev is the highest revision whose outcome has been reported to the sequencer
	LastWriteRev uint64
	// Broadcasts counts broadcast batches released
	Broadcasts int
	// CacheAdds lists revisions added to the cache so far
	CacheAdds []uint64
	// BroadcastRevs lists revisions broadcast so far
	BroadcastRevs []uint64
	pendingBatch  []uint64
	batchEnds     []int
	closed        bool
}

// DrivenWatch is a Watch call advanced stage by stage
type DrivenWatch struct {
	Prefix string
	Start  uint64
	// stages passed, in order (names of the hook points)
	Stages []string
	parked *parkedG
	sig    chan struct{}
	done   bool
	Ch     <-chan []*proto.Event
	Err    error
	// SubscribedAtBroadcast is the number of broadcasts released before the subscription completed (-1 unknown)
	SubscribedAtBroadcast int
	// CacheReadAtAdds is the number of cache adds done when the cache was read (-1 = never read)
	CacheReadAtAdds int
	Received        []*proto.Event
	Closed          bool
	Panic           string
}

var driverMu sync.Mutex

// NewWatchDriver installs the hook callback for b; Close must be called
func NewWatchDriver(b backend.Backend) *WatchDriver {
	driverMu.Lock()
	d := &WatchDriver{B: b, seqSignal: make(chan struct{}, 16)}
	verifhook.Set(func(name string, owner interface{}, arg interface{}) {
		if owner != interface{}(b) {
			return
		}
		switch name {
		case "collect.beforeCacheAdd", "collect.beforeBroadcast":
			d.mu.Lock()
			if d.closed {
				d.mu.Unlock()
				return
			}
			p := &parkedG{name: name, resume: make(chan struct{})}
			if name == "collect.beforeCacheAdd" {
				if e, ok := arg.(*proto.Event); ok {
					d.pendingBatch = append(d.pendingBatch, e.Revision)
				}
			}
			d.seqParked = p
			d.mu.Unlock()
			select {
			case d.seqSignal <- struct{}{}:
			default:
			}
			<-p.resume
		case "watch.afterSubscribe", "watch.afterCacheRead":
			d.mu.Lock()
			w := d.advancing
			if w == nil || d.closed {
				d.mu.Unlock()
				return
			}
			p := &parkedG{name: name, resume: make(chan struct{})}
			w.parked = p
			w.Stages = append(w.Stages, name)
			if name == "watch.afterSubscribe" {
				w.SubscribedAtBroadcast = d.Broadcasts
			} else {
				w.CacheReadAtAdds = len(d.CacheAdds)
			}
			d.mu.Unlock()
			w.sig <- struct{}{}
			<-p.resume
		}
	})
	return d
}

// Close releases everything parked and removes the callback
func (d *WatchDriver) Close() {
	d.mu.Lock()
	d.closed = true
	if d.seqParked != nil {
		close(d.seqParked.resume)
		d.seqParked = nil
	}
	d.mu.Unlock()
	verifhook.Set(nil)
	driverMu.Unlock()
}

// SeqState: "parked:<name>" or "running"
func (d *WatchDriver) SeqState() string {
	d.mu.Lock()
	defer d.mu.Unlock()
	if d.seqParked != nil {
		return "parked:" + d.seqParked.name
	}
	return "running"
}

// pending says whether the sequencer still has a reported outcome to consume
func (d *WatchDriver) pending() bool {
	return d.B.GetCurrentRevision() < d.LastWriteRev
}

// waitSeq waits until the sequencer is parked, or idle (nothing pending)
func (d *WatchDriver) waitSeq() error {
	deadline := time.Now().Add(10 * time.Second)
	for {
		d.mu.Lock()
		parked := d.seqParked != nil
		d.mu.Unlock()
		if parked {
			return nil
		}
		if !d.pending() {
			// the sequencer may be between consuming the last outcome and its next park: give it a moment
			select {
			case <-d.seqSignal:
				continue
			case <-time.After(300 * time.Microsecond):
			}
			d.mu.Lock()
			parked = d.seqParked != nil
			d.mu.Unlock()
			if parked || !d.pending() {
				return nil
			}
			continue
		}
		select {
		case <-d.seqSignal:
		case <-time.After(2 * time.Millisecond):
		}
		if time.Now().After(deadline) {
			return fmt.Errorf("sequencer neither parked nor idle: read revision %d, reported up to %d", d.B.GetCurrentRevision(), d.LastWriteRev)
		}
	}
}

// NoteWrite tells the driver that the outcome of revision rev has been reported; it then lets the sequencer reach
// its next park
func (d *WatchDriver) NoteWrite(rev uint64) error {
	if rev > d.LastWriteRev {
		d.LastWriteRev = rev
	}
	return d.waitSeq()
}

// StepSeq releases the sequencer once (if parked) and waits for its next park or idleness; returns what was released
func (d *WatchDriver) StepSeq() (string, error) {
	d.mu.Lock()
	p := d.seqParked
	if p == nil {
		d.mu.Unlock()
		return "", d.waitSeq()
	}
	d.seqParked = nil
	if p.name == "collect.beforeCacheAdd" {
		if n := len(d.pendingBatch); n > 0 {
			d.CacheAdds = append(d.CacheAdds, d.pendingBatch[n-1])
		}
	} else {
		d.Broadcasts++
		d.BroadcastRevs = append(d.BroadcastRevs, d.pendingBatch...)
		d.batchEnds = append(d.batchEnds, len(d.BroadcastRevs))
		d.pendingBatch = nil
	}
	d.mu.Unlock()
	close(p.resume)
	// after a cache add the sequencer always parks again (next add or the broadcast of the batch)
	if p.name == "collect.beforeCacheAdd" {
		deadline := time.After(10 * time.Second)
		for {
			d.mu.Lock()
			parked := d.seqParked != nil
			d.mu.Unlock()
			if parked {
				return p.name, nil
			}
			select {
			case <-d.seqSignal:
			case <-time.After(time.Millisecond):
			case <-deadline:
				return p.name, fmt.Errorf("sequencer did not park after a cache add")
			}
		}
	}
	return p.name, d.waitSeq()
}

// Drain lets the sequencer run until it is idle
func (d *WatchDriver) Drain() error {
	for i := 0; i < 100000; i++ {
		if err := d.waitSeq(); err != nil {
			return err
		}
		d.mu.Lock()
		parked := d.seqParked != nil
		d.mu.Unlock()
		if !parked {
			return nil
		}
		if _, err := d.StepSeq(); err != nil {
			return err
		}
	}
	return fmt.Errorf("sequencer did not become idle")
}

// StartWatch creates a driven watch (not started yet)
func (d *WatchDriver) StartWatch(prefix string, start uint64) *DrivenWatch {
	return &DrivenWatch{Prefix: prefix, Start: start, sig: make(chan struct{}, 4), SubscribedAtBroadcast: -1, CacheReadAtAdds: -1}
}

// Advance moves the watch one stage: start -> afterSubscribe -> afterCacheRead -> returned
func (d *WatchDriver) Advance(w *DrivenWatch, ctx context.Context) error {
	if w.done {
		return nil
	}
	d.mu.Lock()
	d.advancing = w
	p := w.parked
	w.parked = nil
	d.mu.Unlock()
	if p != nil {
		close(p.resume)
	} else if len(w.Stages) == 0 {
		w.Stages = append(w.Stages, "start")
		go func() {
			var ch <-chan []*proto.Event
			var err error
			func() {
				defer func() {
					if r := recover(); r != nil {
						w.Panic = fmt.Sprintf("%v", r)
						err = fmt.Errorf("Watch panicked: %v", r)
					}
				}()
				ch, err = d.B.Watch(ctx, w.Prefix, w.Start)
			}()
			d.mu.Lock()
			w.Ch, w.Err, w.done = ch, err, true
			if w.SubscribedAtBroadcast < 0 {
				w.SubscribedAtBroadcast = d.Broadcasts
			}
			d.mu.Unlock()
			w.sig <- struct{}{}
		}()
	}
	select {
	case <-w.sig:
	case <-time.After(10 * time.Second):
		return fmt.Errorf("watch call neither parked nor returned")
	}
	d.mu.Lock()
	d.advancing = nil
	d.mu.Unlock()
	return nil
}

// Finish runs the watch call to completion
func (d *WatchDriver) Finish(w *DrivenWatch, ctx context.Context) error {
	for i := 0; i < 5 && !w.isDone(d); i++ {
		if err := d.Advance(w, ctx); err != nil {
			return err
		}
	}
	if !w.isDone(d) {
		return fmt.Errorf("watch call did not return")
	}
	return nil
}

func (w *DrivenWatch) isDone(d *WatchDriver) bool {
	d.mu.Lock()
	defer d.mu.Unlock()
	return w.done
}

// Consume reads up to n batches that are immediately available (n<0: all available); returns batches read
func (w *DrivenWatch) Consume(n int, wait time.Duration) int {
	if w.Ch == nil || w.Closed {
		return 0
	}
	got := 0
	for n < 0 || got < n {
		select {
		case evs, ok := <-w.Ch:
			if !ok {
				w.Closed = true
				return got
			}
			w.Received = append(w.Received, evs...)
			got++
		case <-time.After(wait):
			return got
		}
	}
	return got
}

// ReadUntil reads until an event with the given key arrives, the channel closes, or the timeout passes
func (w *DrivenWatch) ReadUntil(key string, timeout time.Duration) (sawKey bool) {
	if w.Ch == nil || w.Closed {
		return false
	}
	deadline := time.After(timeout)
	for {
		select {
		case evs, ok := <-w.Ch:
			if !ok {
				w.Closed = true
				return false
			}
			for _, e := range evs {
				if string(e.Kv.Key) == key {
					return true
				}
				w.Received = append(w.Received, e)
			}
		case <-deadline:
			return false
		}
	}
}
