package props

import (
	"bytes"
	"fmt"
	"sort"
	"testing"

	"pgregory.net/rapid"

	proto "github.com/kubewharf/kubebrain-client/api/v2rpc"

	"github.com/kubewharf/kubebrain/pkg/backend"
)

// C03 — a read at a revision returns exactly the MVCC snapshot at that revision

type c03Read struct {
	Kind   string `json:"read"` // get | list | count | reread
	K      int    `json:"key,omitempty"`
	Start  int    `json:"start,omitempty"`
	End    int    `json:"end,omitempty"`
	RevSel int    `json:"revsel"` // <0: revision 0 (latest); otherwise selects among first..current
	Limit  int    `json:"limit,omitempty"`
	// After / Until: the lower / upper bound of a list or count is pool key K followed by a zero byte ("immediately
	// after that key": next page of a paginated list, single-key range)
	After bool `json:"after,omitempty"`
	Until bool `json:"until,omitempty"`
}

type c03Step struct {
	W *WOp     `json:"w,omitempty"`
	R *c03Read `json:"r,omitempty"`
}

// c03Split places a region border of the TiKV mock at the internal key of Keys[K] for revision first+Off (Off < 0: the
// key's index record), i.e. possibly between two versions of one key
type c03Split struct {
	K   int `json:"key"`
	Off int `json:"off"`
}

type c03Case struct {
	Engine string
	Keys   []string
	Steps  []c03Step
	Splits []c03Split `json:",omitempty"` // engine tikv-regions only
}

func genKeyPool(t *rapid.T, min, max int) []string {
	n := rapid.IntRange(min, max).Draw(t, "nkeys")
	perm := rapid.Permutation(KeyFamilies).Draw(t, "keys")
	return append([]string{}, perm[:n]...)
}

func genWOp(t *rapid.T, nkeys int) *WOp {
	kind := rapid.SampledFrom([]string{"create", "create", "update", "update", "update", "delete", "delete"}).Draw(t, "op")
	op := &WOp{Kind: kind, K: DrawIntn(t, nkeys, "key"), V: rapid.IntRange(0, 7).Draw(t, "val")}
	if kind != "create" {
		op.Exp = rapid.SampledFrom(ExpClasses).Draw(t, "exp")
	}
	return op
}

// boundPool derives range bounds from the key pool: keys, their neighbours, prefixes and prefix ends
func boundPool(keys []string) [][]byte {
	set := map[string]struct{}{}
	add := func(b []byte) { set[string(b)] = struct{}{} }
	add([]byte(Prefix + "/"))
	add(backend.PrefixEnd([]byte(Prefix + "/")))
	for _, k := range keys {
		fk := []byte(FullKey(k))
		add(fk)
		add(append(append([]byte{}, fk...), '0'))
		add(append(append([]byte{}, fk...), '/'))
		add(backend.PrefixEnd(fk))
		add(backend.PrefixEnd(append(append([]byte{}, fk...), '/')))
		if len(k) > 1 {
			add(fk[:len(fk)-1])
		}
	}
	out := make([][]byte, 0, len(set))
	for s := range set {
		out = append(out, []byte(s))
	}
	sort.Slice(out, func(i, j int) bool { return bytes.Compare(out[i], out[j]) < 0 })
	return out
}

func genC03(t *rapid.T) interface{} {
	c := &c03Case{Engine: EnvStr("VERIF_ENGINE", EngMem)}
	c.Keys = genKeyPool(t, 3, 7)
	nb := len(boundPool(c.Keys))
	n := rapid.IntRange(4, 40).Draw(t, "nsteps")
	for i := 0; i < n; i++ {
		if i < 3 || DrawBool(t, 60, "isWrite") {
			c.Steps = append(c.Steps, c03Step{W: genWOp(t, len(c.Keys))})
			continue
		}
		r := &c03Read{Kind: rapid.SampledFrom([]string{"get", "list", "list", "list", "count", "reread"}).Draw(t, "read")}
		r.K = DrawIntn(t, len(c.Keys), "rkey")
		r.Start, r.End = DrawIntn(t, nb, "start"), DrawIntn(t, nb, "end")
		r.RevSel = rapid.IntRange(-3, 40).Draw(t, "revsel")
		r.Limit = rapid.IntRange(0, len(c.Keys)+1).Draw(t, "limit")
		if r.Kind == "list" || r.Kind == "count" {
			r.After, r.Until = DrawBool(t, 20, "after"), DrawBool(t, 10, "until")
		}
		c.Steps = append(c.Steps, c03Step{R: r})
	}
	if c.Engine == engTiKVRegions {
		ns := rapid.IntRange(1, 4).Draw(t, "nsplits")
		for i := 0; i < ns; i++ {
			c.Splits = append(c.Splits, c03Split{K: DrawIntn(t, len(c.Keys), "splitKey"), Off: rapid.IntRange(-2, n).Draw(t, "splitOff")})
		}
	}
	return c
}

const engTiKVRegions = "tikv-regions"

func (c *c03Case) splitKeys() [][]byte {
	var out [][]byte
	for _, sp := range c.Splits {
		var rev uint64
		if sp.Off >= 0 {
			rev = InitRev + 1 + uint64(sp.Off)
		}
		out = append(out, shimCoder.EncodeObjectKey([]byte(FullKey(c.Keys[sp.K%len(c.Keys)])), rev))
	}
	sort.Slice(out, func(i, j int) bool { return bytes.Compare(out[i], out[j]) < 0 })
	var ded [][]byte
	for i, k := range out {
		if i == 0 || !bytes.Equal(k, out[i-1]) {
			ded = append(ded, k)
		}
	}
	return ded
}

type c03Prior struct {
	kind       string
	key        string
	start, end []byte
	rev        uint64
	limit      int64
	digest     string
}

func runC03(ci interface{}, st *CaseStats) error {
	c := ci.(*c03Case)
	keys := make([]string, len(c.Keys))
	for i, k := range c.Keys {
		keys[i] = FullKey(k)
	}
	engine, splits := c.Engine, [][]byte(nil)
	if engine == engTiKVRegions {
		engine, splits = EngTiKV, c.splitKeys()
	}
	env, err := NewSeqEnv(SeqOpts{Engine: engine, Keys: keys, SplitKeys: splits, Backend: BackendOpts{Etcd: true}})
	if err != nil {
		return Inconclusivef("engine: %v", err)
	}
	defer env.Close()
	bounds := boundPool(c.Keys)
	st.Label("engine:" + c.Engine)
	var priors []c03Prior
	var (
		deletes, oldReads, multiKeyRanges, failed int
	)
	for i, s := range c.Steps {
		if s.W != nil {
			res, err := env.DoWrite(*s.W)
			if err != nil {
				return fmt.Errorf("step %d: %v", i, err)
			}
			if res.Outcome == "ok" && s.W.Kind == "delete" {
				deletes++
			}
			if res.Outcome != "ok" {
				failed++
			}
			continue
		}
		if err := env.Settle(); err != nil {
			return fmt.Errorf("step %d: %v", i, err)
		}
		r := s.R
		cur := env.B.GetCurrentRevision()
		var rev uint64
		if r.RevSel >= 0 && cur > env.Init {
			rev = env.Init + 1 + uint64(r.RevSel)%(cur-env.Init)
		}
		if rev != 0 && rev < env.M.MaxRev() {
			oldReads++
		}
		switch r.Kind {
		case "get":
			k := keys[r.K%len(keys)]
			d, err := env.CheckGet(k, rev)
			if err != nil {
				return fmt.Errorf("step %d: %v", i, err)
			}
			priors = append(priors, c03Prior{kind: "get", key: k, rev: rev, digest: d})
		case "list":
			a, b := bounds[r.Start%len(bounds)], bounds[r.End%len(bounds)]
			if r.After {
				a = append([]byte(keys[r.K%len(keys)]), 0)
				st.Label("bound-immediately-after-a-key")
			}
			if r.Until {
				b = append([]byte(keys[(r.K+1)%len(keys)]), 0)
				st.Label("bound-immediately-after-a-key")
			}
			if bytes.Compare(a, b) > 0 {
				a, b = b, a
			}
			if bytes.Equal(a, b) || bytes.Equal(b, []byte{0}) || bytes.Equal(a, []byte{0}) {
				continue
			}
			d, err := env.CheckList(a, b, rev, int64(r.Limit))
			if err != nil {
				return fmt.Errorf("step %d: %v", i, err)
			}
			use := rev
			if use == 0 {
				use = cur
			}
			if kvs, _ := env.M.Range(a, b, use, 0); len(kvs) >= 2 {
				multiKeyRanges++
				if r.Limit > 0 && len(kvs) > r.Limit {
					st.Label("list:limit-cuts")
				}
			}
			priors = append(priors, c03Prior{kind: "list", start: a, end: b, rev: rev, limit: int64(r.Limit), digest: d})
		case "count":
			a, b := bounds[r.Start%len(bounds)], bounds[r.End%len(bounds)]
			if r.After {
				a = append([]byte(keys[r.K%len(keys)]), 0)
			}
			if r.Until {
				b = append([]byte(keys[(r.K+1)%len(keys)]), 0)
			}
			if bytes.Compare(a, b) > 0 {
				a, b = b, a
			}
			if bytes.Equal(a, b) || bytes.Equal(b, []byte{0}) || bytes.Equal(a, []byte{0}) {
				continue
			}
			if err := env.CheckCount(a, b); err != nil {
				return fmt.Errorf("step %d: %v", i, err)
			}
		case "reread":
			if len(priors) == 0 {
				continue
			}
			p := priors[r.K%len(priors)]
			if p.rev == 0 {
				continue // "latest" legitimately changes
			}
			var d string
			var err error
			if p.kind == "get" {
				d, err = env.CheckGet(p.key, p.rev)
			} else {
				d, err = env.CheckList(p.start, p.end, p.rev, p.limit)
			}
			if err != nil {
				return fmt.Errorf("step %d (re-read): %v", i, err)
			}
			if d != p.digest {
				return fmt.Errorf("step %d: re-read of %s at revision %d answered %s, first answer was %s", i, p.kind, p.rev, d, p.digest)
			}
			st.Label("reread")
		}
	}
	multi := false
	for _, vs := range env.M.Keys {
		if len(vs) >= 2 {
			multi = true
		}
	}
	if failed > 0 {
		st.Label("has-failed-write")
	}
	for _, sp := range c.Splits {
		if vs := env.M.Keys[keys[sp.K%len(keys)]]; sp.Off >= 0 && len(vs) >= 2 && vs[0].Rev < InitRev+1+uint64(sp.Off) && InitRev+1+uint64(sp.Off) <= vs[len(vs)-1].Rev {
			st.Label("region-border-inside-version-run")
			break
		}
	}
	if deletes > 0 && multi && oldReads > 0 && multiKeyRanges > 0 {
		st.Nontrivial()
	}
	return nil
}

func probeC03Marker() (bool, string) {
	env, err := NewSeqEnv(SeqOpts{Engine: EngMem, Keys: []string{FullKey("a")}})
	if err != nil {
		return false, err.Error()
	}
	defer env.Close()
	r, err := env.B.Create(env.Ctx, &proto.CreateRequest{Key: []byte(FullKey("a")), Value: []byte("tombstone")})
	if err != nil || !r.Succeeded {
		return false, fmt.Sprintf("create failed: %v", err)
	}
	WaitCommitted(env.B, r.Header.Revision, 5e9)
	g, err := env.B.Get(env.Ctx, &proto.GetRequest{Key: []byte(FullKey("a"))})
	if err != nil {
		return false, err.Error()
	}
	if g.Kv == nil || !bytes.Equal(g.Kv.Value, []byte("tombstone")) {
		return true, "a value equal to the reserved deletion marker was acknowledged but reads back as absent"
	}
	return false, ""
}

var specC03 = &Spec{
	ID:   "C03",
	Rule: "case = key pool of 3..7 prefix-related names + 4..40 steps (writes with every expected-revision class, so many fail; point / range / limited-range / count reads at every revision between first and current and at 0; re-reads of earlier requests), executed sequentially against a real backend and the reference MVCC model with exact comparison; engine tikv-regions splits the TiKV mock cluster into regions at 1..4 internal keys of pool keys (index record or any revision of the history, so borders fall between versions of one key and unlimited range reads take the partitioned scan path); non-trivial = history has a successful delete and a multi-version key, some read at a revision older than the newest write, and some range read covering >= 2 keys; distinct = SHA-1 of the serialised case",
	Gen:  genC03,
	New:  func() interface{} { return &c03Case{} },
	Run:  runC03,
	Probes: map[string]func() (bool, string){
		"value-equals-deletion-marker": probeC03Marker,
	},
	Assumptions: []string{
		"values are non-empty and never equal to the reserved deletion marker (recorded finding, excluded by construction)",
		"reads below the compaction floor are not generated here (C08)",
	},
	Engines: []string{EngMem, EngBadger, EngTiKV, engTiKVRegions},
}

func TestC03(t *testing.T) { RunProperty(t, specC03) }
