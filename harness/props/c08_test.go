package props

import (
	"bytes"
	"context"
	"encoding/binary"
	"fmt"
	"testing"
	"time"

	"pgregory.net/rapid"

	proto "github.com/kubewharf/kubebrain-client/api/v2rpc"

	"github.com/kubewharf/kubebrain/pkg/backend"
	"github.com/kubewharf/kubebrain/pkg/backend/coder"
	"github.com/kubewharf/kubebrain/pkg/storage"
)

// C08 — the compaction floor only rises, and range reads below it are refused

type c08Step struct {
	W *WOp `json:"w,omitempty"`
	// compaction: Mode cur | zero | above | sel (any revision between first and current, including below the floor)
	CMode string `json:"compact,omitempty"`
	CSel  int    `json:"csel,omitempty"`
	// CNode: 1 = the compaction is issued on the second node (both nodes have led at some time: the floor is a
	// property of the store, whichever node raised it)
	CNode int `json:"cnode,omitempty"`
	// CFault: the engine fails the write of the compaction record for this request (nothing applied). The request may
	// be refused or accepted; accepted means the floor is raised
	CFault bool `json:"cfault,omitempty"`
	// read: list | stream | count
	Read   string `json:"read,omitempty"`
	RevSel int    `json:"revsel,omitempty"`
	Start  int    `json:"start,omitempty"`
	End    int    `json:"end,omitempty"`
	Limit  int    `json:"limit,omitempty"`
	// Single: the range is exactly one key, [k, k+"\x00") for pool key Start (a point read phrased as a range)
	Single bool `json:"single,omitempty"`
	// Node: 1 = the read is served by a second node over the same store (a follower that adopted the leader's revision)
	Node int `json:"node,omitempty"`
}

type c08Case struct {
	Engine string
	Keys   []string
	Steps  []c08Step
}

func genC08(t *rapid.T) interface{} {
	c := &c08Case{Engine: EnvStr("VERIF_ENGINE", EngMem)}
	c.Keys = genKeyPool(t, 2, 5)
	nb := len(boundPool(c.Keys))
	n := rapid.IntRange(6, 36).Draw(t, "nsteps")
	for i := 0; i < n; i++ {
		k := rapid.IntRange(0, 9).Draw(t, "kind")
		switch {
		case i < 4 || k < 4:
			c.Steps = append(c.Steps, c08Step{W: genWOp(t, len(c.Keys))})
		case k < 7:
			c.Steps = append(c.Steps, c08Step{
				CMode:  rapid.SampledFrom([]string{"cur", "zero", "above", "sel", "sel", "sel", "sel"}).Draw(t, "cmode"),
				CSel:   rapid.IntRange(0, 40).Draw(t, "csel"),
				CNode:  rapid.SampledFrom([]int{0, 0, 0, 1}).Draw(t, "cnode"),
				CFault: DrawBool(t, 12, "cfault"),
			})
		default:
			c.Steps = append(c.Steps, c08Step{
				Read:   rapid.SampledFrom([]string{"list", "list", "stream", "count"}).Draw(t, "read"),
				RevSel: rapid.IntRange(-2, 40).Draw(t, "revsel"),
				Start:  DrawIntn(t, nb, "start"), End: DrawIntn(t, nb, "end"),
				Limit:  rapid.IntRange(0, 3).Draw(t, "limit"),
				Single: DrawBool(t, 20, "single"),
				Node:   rapid.SampledFrom([]int{0, 0, 1}).Draw(t, "node"),
			})
		}
	}
	return c
}

var c08Coder = coder.NewNormalCoder()

// readStream drains a ListByStream answer: data kvs, number of data batches, terminators, error text
func readStream(ch <-chan *proto.StreamRangeResponse) (kvs []*proto.KeyValue, batches int, terms int, errText string, afterTerm int, hdrs []uint64, timedOut bool) {
	timeout := time.After(30 * time.Second)
	for {
		select {
		case r, ok := <-ch:
			if !ok {
				return
			}
			if r == nil || r.RangeResponse == nil {
				errText = "nil response"
				continue
			}
			if terms > 0 {
				afterTerm++
			}
			if !r.RangeResponse.More {
				terms++
				if r.Err != "" {
					errText = r.Err
				}
				continue
			}
			batches++
			if r.RangeResponse.Header != nil {
				hdrs = append(hdrs, r.RangeResponse.Header.Revision)
			} else {
				hdrs = append(hdrs, 0)
			}
			kvs = append(kvs, r.RangeResponse.Kvs...)
		case <-timeout:
			timedOut = true
			return
		}
	}
}

func storedFloor(kv storage.KvStorage) (uint64, bool, error) {
	v, err := kv.Get(context.Background(), []byte(Prefix+"/compact_key"))
	if err == storage.ErrKeyNotFound {
		return 0, false, nil
	}
	if err != nil {
		return 0, false, err
	}
	if len(v) != 8 {
		return 0, true, fmt.Errorf("compact record has %d bytes", len(v))
	}
	return binary.BigEndian.Uint64(v), true, nil
}

func runC08(ci interface{}, st *CaseStats) error {
	c := ci.(*c08Case)
	keys := make([]string, len(c.Keys))
	for i, k := range c.Keys {
		keys[i] = FullKey(k)
	}
	env, err := NewSeqEnv(SeqOpts{Engine: c.Engine, Keys: keys, UseShim: true, Backend: BackendOpts{Etcd: true}})
	if err != nil {
		return Inconclusivef("engine: %v", err)
	}
	defer env.Close()
	st.Label("engine:" + c.Engine)
	bounds := boundPool(c.Keys)
	// a second node over the same store: it serves reads after adopting the first node's read revision
	second := NewTestBackend(env.KV, BackendOpts{Etcd: true, Identity: "node-1"})
	defer StopBackend(second)
	first := env.B
	var floor, lastRecord uint64
	loweredAttempt, readBetween, refused := false, false, 0
	var lowReqAfterHigh uint64
	for i, s := range c.Steps {
		env.B = first
		switch {
		case s.W != nil:
			if _, err := env.DoWrite(*s.W); err != nil {
				return fmt.Errorf("step %d: %v", i, err)
			}
		case s.CMode != "":
			if err := env.Settle(); err != nil {
				return fmt.Errorf("step %d: %v", i, err)
			}
			cur := env.B.GetCurrentRevision()
			var req uint64
			switch s.CMode {
			case "cur":
				req = cur
			case "zero":
				req = 0
			case "above":
				req = cur + 1 + uint64(s.CSel)
			default:
				if cur > env.Init {
					req = env.Init + 1 + uint64(s.CSel)%(cur-env.Init)
				}
			}
			cb := env.B
			if s.CNode == 1 {
				second.SetCurrentRevision(cur)
				cb = second
				st.Label("compaction-on-second-node")
			}
			faulted := false
			if s.CFault {
				env.Shim.OnCommit = func(ci *CommitInfo) Decision {
					for _, op := range ci.Ops {
						if bytes.Equal(op.Key, []byte(Prefix+"/compact_key")) && !faulted {
							faulted = true
							return FailNoApply
						}
					}
					return Pass
				}
			}
			resp, err := cb.Compact(env.Ctx, req)
			env.Shim.OnCommit = nil
			if err != nil {
				if faulted {
					// refused: nothing was raised
					st.Label("compaction-refused-after-storage-error")
					continue
				}
				return fmt.Errorf("step %d: Compact(%d) returned error %v", i, req, err)
			}
			if faulted {
				st.Label("compaction-accepted-despite-storage-error")
			}
			eff := resp.Header.Revision
			if eff > cur {
				return fmt.Errorf("step %d: Compact(%d) reports effective revision %d above the committed revision %d", i, req, eff, cur)
			}
			if eff < floor {
				loweredAttempt = true
				lowReqAfterHigh = eff
				st.Label("compact:older-than-floor")
			} else if eff == floor {
				st.Label("compact:repeated")
			} else {
				st.Label("compact:raises")
			}
			if eff > floor {
				floor = eff
			}
			rec, ok, err := storedFloor(env.KV)
			if err != nil {
				return fmt.Errorf("step %d: %v", i, err)
			}
			if ok {
				if rec < lastRecord {
					return fmt.Errorf("step %d: Compact(%d) lowered the stored compaction record from %d to %d", i, req, lastRecord, rec)
				}
				lastRecord = rec
			}
			if ok && rec < floor {
				return fmt.Errorf("step %d: after an accepted compaction at %d the stored record is %d", i, floor, rec)
			}
		case s.Read != "":
			if err := env.Settle(); err != nil {
				return fmt.Errorf("step %d: %v", i, err)
			}
			cur := env.B.GetCurrentRevision()
			var rev uint64
			if s.RevSel >= 0 && cur > env.Init {
				rev = env.Init + 1 + uint64(s.RevSel)%(cur-env.Init)
			}
			a, b := bounds[s.Start%len(bounds)], bounds[s.End%len(bounds)]
			if s.Single && s.Read == "stream" {
				// a streamed range takes internal keys as advertised by the partition listing, not raw bounds
				s.Read = "list"
			}
			if s.Single {
				a = []byte(FullKey(c.Keys[s.Start%len(c.Keys)]))
				b = append(append([]byte{}, a...), 0)
				st.Label("single-key-range")
			}
			if bytes.Compare(a, b) > 0 {
				a, b = b, a
			}
			if bytes.Equal(a, b) || bytes.Equal(b, []byte{0}) || bytes.Equal(a, []byte{0}) {
				continue
			}
			if s.Node == 1 {
				second.SetCurrentRevision(cur)
				env.B = second
				st.Label("read-on-second-node")
			}
			restore := func() { env.B = first }
			_ = restore
			below := rev != 0 && rev < floor
			if below && loweredAttempt && rev >= lowReqAfterHigh {
				readBetween = true
			}
			switch s.Read {
			case "list":
				if below {
					r, err := env.B.List(env.Ctx, &proto.RangeRequest{Key: a, End: b, Revision: rev, Limit: int64(s.Limit)})
					if err == nil {
						return fmt.Errorf("step %d: List at revision %d below the compaction floor %d returned data (%d kvs) instead of an error", i, rev, floor, len(r.Kvs))
					}
					refused++
				} else if _, err := env.CheckList(a, b, rev, int64(s.Limit)); err != nil {
					return fmt.Errorf("step %d (floor %d): %v", i, floor, err)
				}
			case "count":
				if err := env.CheckCount(a, b); err != nil {
					return fmt.Errorf("step %d: %v", i, err)
				}
			case "stream":
				ch, err := env.B.ListByStream(env.Ctx, c08Coder.EncodeObjectKey(a, 0), c08Coder.EncodeObjectKey(b, 0), rev)
				if err != nil {
					if below {
						refused++
						continue
					}
					return fmt.Errorf("step %d: ListByStream at %d returned error %v", i, rev, err)
				}
				kvs, batches, terms, errText, after, _, timedOut := readStream(ch)
				if timedOut {
					return fmt.Errorf("step %d: stream at revision %d never ended", i, rev)
				}
				if terms != 1 || after != 0 {
					return fmt.Errorf("step %d: stream at revision %d has %d terminators, %d messages after the terminator", i, rev, terms, after)
				}
				if below {
					if errText == "" || batches != 0 {
						return fmt.Errorf("step %d: streamed range at revision %d below the floor %d delivered %d data batches, error=%q", i, rev, floor, batches, errText)
					}
					refused++
				} else {
					if errText != "" {
						return fmt.Errorf("step %d: streamed range at revision %d (floor %d) ended with error %q", i, rev, floor, errText)
					}
					use := rev
					if use == 0 {
						use = cur
					}
					want, _ := env.M.Range(a, b, use, 0)
					if d := sameKVs(kvs, want); d != "" {
						return fmt.Errorf("step %d: streamed range [%q,%q) at %d: %s", i, a, b, use, d)
					}
				}
			}
		}
	}
	env.B = first
	if refused > 0 {
		st.Label("read-refused")
	}
	if loweredAttempt && readBetween {
		st.Nontrivial()
	}
	return nil
}

func probeC08Lower() (bool, string) {
	keys := []string{FullKey("a"), FullKey("b")}
	env, err := NewSeqEnv(SeqOpts{Engine: EngMem, Keys: keys})
	if err != nil {
		return false, err.Error()
	}
	defer env.Close()
	for i := 0; i < 12; i++ {
		op := WOp{Kind: "update", K: i % 2, Exp: "ok"}
		if i < 2 {
			op = WOp{Kind: "create", K: i}
		}
		if _, err := env.DoWrite(op); err != nil {
			return false, err.Error()
		}
	}
	_ = env.Settle()
	cur := env.B.GetCurrentRevision()
	if _, err := env.B.Compact(env.Ctx, cur); err != nil {
		return false, err.Error()
	}
	if _, err := env.B.Compact(env.Ctx, cur-9); err != nil {
		return false, err.Error()
	}
	end := backend.PrefixEnd([]byte(Prefix + "/"))
	r, err := env.B.List(env.Ctx, &proto.RangeRequest{Key: []byte(Prefix + "/"), End: end, Revision: cur - 5})
	if err == nil {
		return true, fmt.Sprintf("Compact(%d) then Compact(%d): List at %d returned %d kvs instead of an error", cur, cur-9, cur-5, len(r.Kvs))
	}
	return false, ""
}

var specC08 = &Spec{
	ID:   "C08",
	Rule: "case = 6..36 steps mixing writes, compaction requests (current, 0, above current, any revision between first and current — hence increasing, repeated and decreasing sequences) and range / streamed-range / count reads at every revision, a third of them served by a second node over the same store that adopted the first node's revision (a quarter of the compactions are issued on that node; a fifth of the ranges are single-key ranges [k, k+NUL)); floor = max effective revision of accepted compactions (response header); non-trivial = a compaction whose effective revision is below the floor, followed by a range read at a revision between that request and the floor; distinct = SHA-1 of the case",
	Gen:  genC08,
	New:  func() interface{} { return &c08Case{} },
	Run:  runC08,
	Probes: map[string]func() (bool, string){
		"older-compaction-lowers-floor": probeC08Lower,
	},
	Assumptions: []string{"reads at or above the floor are additionally compared with the reference model"},
	Engines:     []string{EngMem, EngBadger, EngTiKV},
}

func TestC08(t *testing.T) { RunProperty(t, specC08) }

// ---------------------------------------------------------------------------------------------------------------
// concurrent compactions under the scheduler

type c08ConcCase struct {
	Engine string
	Keys   []string
	Hist   []WOp
	CSels  []int // one compaction request per compactor client (selects a revision between first and current)
	Sched  []int
}

func genC08Conc(t *rapid.T) interface{} {
	c := &c08ConcCase{Engine: EnvStr("VERIF_ENGINE", EngMem)}
	c.Keys = genKeyPool(t, 2, 4)
	n := rapid.IntRange(6, 16).Draw(t, "nhist")
	for i := 0; i < n; i++ {
		op := genWOp(t, len(c.Keys))
		if op.Kind != "create" && DrawBool(t, 70, "ok") {
			op.Exp = "ok"
		}
		c.Hist = append(c.Hist, *op)
	}
	nc := rapid.IntRange(2, 3).Draw(t, "ncompactors")
	for i := 0; i < nc; i++ {
		c.CSels = append(c.CSels, rapid.IntRange(0, 40).Draw(t, "csel"))
	}
	c.Sched = DrawChoices(t, 60, "sched")
	return c
}

func runC08Conc(ci interface{}, st *CaseStats) error {
	c := ci.(*c08ConcCase)
	keys := make([]string, len(c.Keys))
	for i, k := range c.Keys {
		keys[i] = FullKey(k)
	}
	env, err := NewSeqEnv(SeqOpts{Engine: c.Engine, Keys: keys, UseShim: true, Backend: BackendOpts{Etcd: true}})
	if err != nil {
		return Inconclusivef("engine: %v", err)
	}
	defer env.Close()
	st.Label("engine:" + c.Engine)
	for i, op := range c.Hist {
		if _, err := env.DoWrite(op); err != nil {
			return fmt.Errorf("history step %d: %v", i, err)
		}
	}
	if err := env.Settle(); err != nil {
		return err
	}
	cur := env.B.GetCurrentRevision()
	if cur <= env.Init+1 {
		return nil
	}
	reqs := make([]uint64, len(c.CSels))
	effs := make([]uint64, len(c.CSels))
	cerrs := make([]error, len(c.CSels))
	sched := NewSched()
	env.Shim.Gate = sched.GateFunc
	programs := make([]func(ctx context.Context), len(c.CSels))
	for i, sel := range c.CSels {
		i := i
		reqs[i] = env.Init + 1 + uint64(sel)%(cur-env.Init)
		programs[i] = func(ctx context.Context) {
			resp, err := env.B.Compact(ctx, reqs[i])
			cerrs[i] = err
			if resp != nil {
				effs[i] = resp.Header.Revision
			}
		}
	}
	err = sched.Run(programs, c.Sched)
	env.Shim.Gate = nil
	if err != nil {
		return Inconclusivef("%v", err)
	}
	var floor, lowest uint64
	lowest = ^uint64(0)
	for i := range effs {
		if cerrs[i] != nil {
			// a compaction that lost the race for the record may report an error; it then accepted nothing
			st.Label("compaction-returned-error")
			continue
		}
		if effs[i] > floor {
			floor = effs[i]
		}
		if effs[i] < lowest {
			lowest = effs[i]
		}
	}
	rec, ok, err := storedFloor(env.KV)
	if err != nil {
		return err
	}
	if floor > 0 && (!ok || rec < floor) {
		return fmt.Errorf("compactions at %v were accepted (effective %v) under schedule %v, but the stored record is %d (present=%v): a concurrent older compaction lowered the floor", reqs, effs, sched.Trace, rec, ok)
	}
	a, b := []byte(Prefix+"/"), backend.PrefixEnd([]byte(Prefix+"/"))
	between := false
	for r := env.Init + 1; r <= cur; r++ {
		if r < floor {
			resp, err := env.B.List(env.Ctx, &proto.RangeRequest{Key: a, End: b, Revision: r})
			if err == nil {
				return fmt.Errorf("compactions at %v accepted (effective %v, schedule %v): List at revision %d below the floor %d returned %d kvs instead of an error", reqs, effs, sched.Trace, r, floor, len(resp.Kvs))
			}
			if r >= lowest {
				between = true
			}
		} else if _, err := env.CheckList(a, b, r, 0); err != nil {
			return fmt.Errorf("after concurrent compactions at %v (floor %d): %v", reqs, floor, err)
		}
	}
	if between && len(sched.Trace) > len(c.CSels)+2 {
		st.Nontrivial()
	}
	return nil
}

var specC08Conc = &Spec{
	ID:      "C08",
	Rule:    "concurrent mode: a history of 6..16 writes, then 2..3 compaction requests at generated revisions issued by concurrent clients whose storage calls (record read, record write, scan set-up) are interleaved by the scheduler; afterwards List at every revision: below the highest accepted effective revision it must be refused, at or above it must equal the model; the stored record must be at least that revision. Non-trivial = the requests named different revisions and some revision lies between them; distinct = SHA-1 of the case",
	Gen:     genC08Conc,
	New:     func() interface{} { return &c08ConcCase{} },
	Run:     runC08Conc,
	Engines: []string{EngMem, EngTiKV},
}

func TestC08Conc(t *testing.T) { RunProperty(t, specC08Conc) }
