package props

// C11, TiKV scan faults: the TiKV adapter's iterator fetches its keys in batches; when fetching a later batch fails,
// the iteration has to end with an error — ending it like an exhausted range would hand the caller a silently
// truncated result. The fault is injected between the TiKV client and the mock cluster (below the adapter).

import (
	"context"
	"fmt"
	"io"
	"sync/atomic"
	"testing"

	"github.com/pingcap/kvproto/pkg/kvrpcpb"
	"github.com/tikv/client-go/v2/tikvrpc"
	"pgregory.net/rapid"
)

type c11ScanFaultCase struct {
	Engine  string
	N       int  // keys in the range
	FailAt  int  // which scan request (1-based, counted from the creation of the iterator) is answered with an error
	Reverse bool `json:",omitempty"`
	Limit   int  `json:",omitempty"`
}

func genC11ScanFault(t *rapid.T) interface{} {
	return &c11ScanFaultCase{Engine: EnvStr("VERIF_ENGINE", EngTiKV), N: rapid.SampledFrom([]int{100, 256, 257, 300, 513, 700}).Draw(t, "n"),
		FailAt: rapid.IntRange(1, 4).Draw(t, "failAt"), Reverse: DrawBool(t, 30, "reverse"), Limit: rapid.SampledFrom([]int{0, 0, 0, 400}).Draw(t, "limit")}
}

func runC11ScanFault(ci interface{}, st *CaseStats) error {
	c := ci.(*c11ScanFaultCase)
	eng, err := OpenEngine(c.Engine)
	if err != nil || eng.TiKVGuard == nil {
		return Inconclusivef("engine: %v", err)
	}
	defer eng.Close()
	kv, ctx := eng.KV, context.Background()
	for i := 0; i < c.N; i += 100 {
		b := kv.BeginBatchWrite()
		for j := i; j < i+100 && j < c.N; j++ {
			b.Put([]byte(fmt.Sprintf("c11/s/%05d", j)), []byte(fmt.Sprintf("v%d", j)), 0)
		}
		if err := b.Commit(ctx); err != nil {
			return Inconclusivef("populate: %v", err)
		}
	}
	var scans, fired int32
	eng.TiKVGuard.SetHook(func(req *tikvrpc.Request) *tikvrpc.Response {
		if req.Type != tikvrpc.CmdScan {
			return nil
		}
		if int(atomic.AddInt32(&scans, 1)) == c.FailAt {
			atomic.StoreInt32(&fired, 1)
			return &tikvrpc.Response{Resp: &kvrpcpb.ScanResponse{Error: &kvrpcpb.KeyError{Abort: "injected: region is unavailable"}}}
		}
		return nil
	})
	defer eng.TiKVGuard.SetHook(nil)
	start, end := []byte("c11/s/"), []byte("c11/s0")
	if c.Reverse {
		start, end = []byte("c11/s/99999"), []byte("c11/s/")
	}
	it, ierr := kv.Iter(ctx, start, end, 0, uint64(c.Limit))
	if ierr != nil {
		if atomic.LoadInt32(&fired) == 0 {
			return fmt.Errorf("Iter returned %v before any fault", ierr)
		}
		st.Label("error-at-iterator-creation")
		return nil
	}
	defer it.Close()
	want := c.N
	if c.Limit > 0 && c.Limit < want {
		want = c.Limit
	}
	got := 0
	for {
		err := it.Next(ctx)
		if err == io.EOF {
			break
		}
		if err != nil {
			if atomic.LoadInt32(&fired) == 0 {
				return fmt.Errorf("step %d of the iteration returned %v before any fault", got, err)
			}
			st.Label("error-reported-by-a-later-step")
			st.Nontrivial()
			return nil
		}
		idx := got
		if c.Reverse {
			idx = c.N - 1 - got
		}
		if k := fmt.Sprintf("c11/s/%05d", idx); string(it.Key()) != k {
			return fmt.Errorf("step %d of the iteration yields %q, want %q", got, it.Key(), k)
		}
		got++
	}
	// the limit is a hint: an engine may deliver more than limit keys (the in-memory engine ignores it, TiKV stops one
	// key later), never fewer
	if got < want || got > c.N {
		return fmt.Errorf("the iteration over %d keys (limit %d, reverse=%v) ended like an exhausted range after %d keys; the engine had failed scan request #%d (fault fired=%v): a failed step must be reported as an error, not as the end of the range", c.N, c.Limit, c.Reverse, got, c.FailAt, atomic.LoadInt32(&fired) == 1)
	}
	if atomic.LoadInt32(&fired) == 0 {
		st.Label("fault-not-reached")
	} else {
		st.Label("complete-despite-fault")
	}
	return nil
}

var specC11ScanFault = &Spec{
	ID:      "C11",
	Rule:    "TiKV scan-fault mode: case = 100..700 keys in one range, an iterator (forward / backward, optionally limited) and the index of the scan request — counted from the iterator's creation; the client fetches 256 keys per request — that the cluster answers with an error, injected between the TiKV client and the mock cluster. Oracle: the iteration yields the keys in order and either reports an error or delivers all of them; it never ends like an exhausted range after fewer keys. Non-trivial = the error surfaced at a later step of the iteration (not at its creation); distinct = SHA-1 of the case",
	Gen:     genC11ScanFault,
	New:     func() interface{} { return &c11ScanFaultCase{} },
	Run:     runC11ScanFault,
	Engines: []string{EngTiKV, EngTiKVMet},
}

func TestC11ScanFault(t *testing.T) { RunProperty(t, specC11ScanFault) }

// ---------------------------------------------------------------------------------------------------------------
// TiKV commit faults: the cluster refuses one phase of a write batch's transaction with an error the client does not
// retry; the batch must report an error and must not have taken effect (and a later batch works again)

type c11CommitFaultCase struct {
	Engine string
	Phase  string // prewrite | commit
	Kind   string // retryable | abort
	Ops    int    // puts in the faulted batch
	Cond   string // none | pine | cas
}

func genC11CommitFault(t *rapid.T) interface{} {
	return &c11CommitFaultCase{Engine: EnvStr("VERIF_ENGINE", EngTiKV), Phase: rapid.SampledFrom([]string{"prewrite", "prewrite", "commit"}).Draw(t, "phase"),
		Kind: rapid.SampledFrom([]string{"retryable", "abort"}).Draw(t, "kind"), Ops: rapid.IntRange(1, 4).Draw(t, "ops"),
		Cond: rapid.SampledFrom([]string{"none", "pine", "cas"}).Draw(t, "cond")}
}

func runC11CommitFault(ci interface{}, st *CaseStats) error {
	c := ci.(*c11CommitFaultCase)
	eng, err := OpenEngine(c.Engine)
	if err != nil || eng.TiKVGuard == nil {
		return Inconclusivef("engine: %v", err)
	}
	defer eng.Close()
	kv, ctx := eng.KV, context.Background()
	seed := kv.BeginBatchWrite()
	seed.Put([]byte("c11/f/guard"), []byte("g0"), 0)
	if err := seed.Commit(ctx); err != nil {
		return Inconclusivef("seed: %v", err)
	}
	var armed, fired int32 = 1, 0
	keyErr := func() *kvrpcpb.KeyError {
		if c.Kind == "abort" {
			return &kvrpcpb.KeyError{Abort: "injected: transaction aborted by the cluster"}
		}
		return &kvrpcpb.KeyError{Retryable: "injected: refused, try again"}
	}
	eng.TiKVGuard.SetHook(func(req *tikvrpc.Request) *tikvrpc.Response {
		if atomic.LoadInt32(&armed) == 0 {
			return nil
		}
		switch {
		case c.Phase == "prewrite" && req.Type == tikvrpc.CmdPrewrite:
			atomic.StoreInt32(&armed, 0)
			atomic.StoreInt32(&fired, 1)
			return &tikvrpc.Response{Resp: &kvrpcpb.PrewriteResponse{Errors: []*kvrpcpb.KeyError{keyErr()}}}
		case c.Phase == "commit" && req.Type == tikvrpc.CmdCommit:
			atomic.StoreInt32(&armed, 0)
			atomic.StoreInt32(&fired, 1)
			return &tikvrpc.Response{Resp: &kvrpcpb.CommitResponse{Error: keyErr()}}
		}
		return nil
	})
	defer eng.TiKVGuard.SetHook(nil)
	b := kv.BeginBatchWrite()
	switch c.Cond {
	case "pine":
		b.PutIfNotExist([]byte("c11/f/new"), []byte("n"), 0)
	case "cas":
		b.CAS([]byte("c11/f/guard"), []byte("g1"), []byte("g0"), 0)
	}
	for i := 0; i < c.Ops; i++ {
		b.Put([]byte(fmt.Sprintf("c11/f/k%d", i)), []byte("v"), 0)
	}
	cerr := b.Commit(ctx)
	atomic.StoreInt32(&armed, 0)
	if atomic.LoadInt32(&fired) == 0 {
		st.Label("fault-not-reached")
		return nil
	}
	what := fmt.Sprintf("the cluster refused the %s of a batch (%s key error): Commit returned %v", c.Phase, c.Kind, cerr)
	after, derr := c11Dump(kv)
	if derr != nil {
		return Inconclusivef("dump: %v", derr)
	}
	applied := 0
	for i := 0; i < c.Ops; i++ {
		if _, ok := after[fmt.Sprintf("f/k%d", i)]; ok {
			applied++
		}
	}
	switch {
	case cerr == nil && applied != c.Ops:
		return fmt.Errorf("%s, yet only %d of its %d puts are in the store: a refused batch must be reported as an error", what, applied, c.Ops)
	case cerr != nil && errClass(cerr) != "uncertain" && applied != 0:
		return fmt.Errorf("%s (a definite failure), yet %d of its %d puts are in the store", what, applied, c.Ops)
	case applied != 0 && applied != c.Ops:
		return fmt.Errorf("%s and %d of its %d puts are in the store: a batch takes effect entirely or not at all", what, applied, c.Ops)
	}
	st.Label("answer:" + errClass(cerr))
	// the engine keeps working
	nb := kv.BeginBatchWrite()
	nb.Put([]byte("c11/f/after"), []byte("a"), 0)
	if err := nb.Commit(ctx); err != nil {
		return fmt.Errorf("%s; the next batch then failed with %v", what, err)
	}
	st.Nontrivial()
	return nil
}

var specC11CommitFault = &Spec{
	ID:      "C11",
	Rule:    "TiKV commit-fault mode: case = a write batch (1..4 puts, optionally a put-if-absent or compare-and-swap whose condition holds) whose prewrite or commit request the cluster answers once with a key error (retryable / abort), injected between the TiKV client and the mock cluster. Oracle: Commit returns an error unless the whole batch is in the store; after a definite error nothing of it is there; never a part of it; the next batch succeeds. Non-trivial = the fault was reached; distinct = SHA-1 of the case",
	Gen:     genC11CommitFault,
	New:     func() interface{} { return &c11CommitFaultCase{} },
	Run:     runC11CommitFault,
	Engines: []string{EngTiKV, EngTiKVMet},
}

func TestC11CommitFault(t *testing.T) { RunProperty(t, specC11CommitFault) }
