package props

// C14, free-running mode: candidates race on the raw engine (no shim, no scheduler) — interleavings inside one storage
// call (a batch's condition check and its apply) are reachable only this way.

import (
	"fmt"
	"sync"
	"testing"
	"time"

	metav1 "k8s.io/apimachinery/pkg/apis/meta/v1"
	"k8s.io/client-go/tools/leaderelection/resourcelock"
	"pgregory.net/rapid"

	"github.com/kubewharf/kubebrain/pkg/backend/election"
)

type c14FreeCase struct {
	Engine     string
	Candidates int
	Rounds     int
	// CreateEvery: every n-th round starts from an absent record (all candidates create), the others from a record
	// every candidate has just read (all candidates update)
	CreateEvery int
}

func genC14Free(t *rapid.T) interface{} {
	return &c14FreeCase{Engine: EnvStr("VERIF_ENGINE", EngMem), Candidates: rapid.IntRange(2, 5).Draw(t, "candidates"),
		Rounds: rapid.SampledFrom([]int{200, 500, 1500}).Draw(t, "rounds"), CreateEvery: rapid.IntRange(2, 5).Draw(t, "createEvery")}
}

func runC14Free(ci interface{}, st *CaseStats) error {
	c := ci.(*c14FreeCase)
	eng, err := OpenEngine(c.Engine)
	if err != nil {
		return Inconclusivef("engine: %v", err)
	}
	defer eng.Close()
	st.Label("engine:" + c.Engine)
	locks := make([]resourcelock.Interface, c.Candidates)
	for i := range locks {
		locks[i] = election.NewResourceLockManager(election.Config{Prefix: Prefix, Identity: fmt.Sprintf("cand-%d", i), Timeout: 30 * time.Second}, eng.KV).GetResourceLock()
	}
	lockKey := []byte(Prefix + "/election") // removed between create rounds through the engine
	_ = lockKey
	contested := 0
	for round := 0; round < c.Rounds; round++ {
		create := round%c.CreateEvery == 0
		if create {
			// make the record absent: find its key by scanning the store once
			all, err := DumpAll(eng.KV)
			if err != nil {
				return Inconclusivef("dump: %v", err)
			}
			for _, rec := range all {
				if err := eng.KV.Del(ClientCtx(-1), rec.Key); err != nil {
					return Inconclusivef("reset: %v", err)
				}
			}
		} else {
			for i, l := range locks {
				if _, err := l.Get(); err != nil {
					return Inconclusivef("round %d: candidate %d get: %v", round, i, err)
				}
			}
		}
		var wg sync.WaitGroup
		start := make(chan struct{})
		res := make([]error, c.Candidates)
		for i, l := range locks {
			wg.Add(1)
			go func(i int, l resourcelock.Interface) {
				defer wg.Done()
				now := metav1.NewTime(time.Unix(int64(1000+round), 0))
				rec := resourcelock.LeaderElectionRecord{HolderIdentity: fmt.Sprintf("cand-%d", i), LeaseDurationSeconds: 8, AcquireTime: now, RenewTime: now, LeaderTransitions: round}
				<-start
				if create {
					res[i] = l.Create(rec)
				} else {
					res[i] = l.Update(rec)
				}
			}(i, l)
		}
		close(start)
		wg.Wait()
		winners := []int{}
		for i, e := range res {
			if e == nil {
				winners = append(winners, i)
			}
		}
		what := "update from the same observed record"
		if create {
			what = "create on an absent record"
		}
		if len(winners) > 1 {
			return fmt.Errorf("round %d: %s succeeded for %d candidates at once: %v", round, what, len(winners), winners)
		}
		if len(winners) == 0 {
			return fmt.Errorf("round %d: %s succeeded for nobody although nothing else touched the record: %v", round, what, res)
		}
		got, err := locks[(winners[0]+1)%c.Candidates].Get()
		if err != nil {
			return fmt.Errorf("round %d: reading the record back: %v", round, err)
		}
		if got.HolderIdentity != fmt.Sprintf("cand-%d", winners[0]) || got.LeaderTransitions != round {
			return fmt.Errorf("round %d: candidate %d's %s was accepted, the stored record names %q (transition %d)", round, winners[0], what, got.HolderIdentity, got.LeaderTransitions)
		}
		contested++
	}
	st.Count("contested_rounds", contested)
	if contested >= 100 {
		st.Nontrivial()
	}
	return nil
}

var specC14Free = &Spec{
	ID:   "C14",
	Rule: "free-running mode: case = 2..5 candidates (real resourcelock.Interface over one raw engine) x 200..1500 rounds; in every round all candidates read the record (or it is removed) and then all of them create / update at the same instant on their own goroutines. Oracle: exactly one succeeds and the stored record is the winner's. Non-trivial = at least 100 contested rounds; distinct = SHA-1 of the case",
	Gen:  genC14Free,
	New:  func() interface{} { return &c14FreeCase{} },
	Run:  runC14Free,
	Assumptions: []string{
		"schedules inside a storage call are whatever the Go scheduler produces (not enumerated); the scheduled modes enumerate interleavings of whole storage calls",
	},
	Engines: []string{EngMem, EngTiKV, EngBadger},
}

func TestC14Free(t *testing.T) { RunProperty(t, specC14Free) }
