package props

import (
	"bufio"
	"context"
	"fmt"
	"os"
	"path/filepath"
	"regexp"
	"sort"
	"strings"
	"sync"
	"sync/atomic"
	"testing"
	"time"

	metav1 "k8s.io/apimachinery/pkg/apis/meta/v1"
	"k8s.io/client-go/tools/leaderelection/resourcelock"
	"pgregory.net/rapid"

	proto "github.com/kubewharf/kubebrain-client/api/v2rpc"

	"github.com/kubewharf/kubebrain/pkg/backend"
)

// C19 — concurrent requests are free of data races (oracle: the Go race detector)

type c19Worker struct {
	Kind string `json:"kind"` // writer | reader | streamer | watcher | compactor | locker | faulty
	N    int    `json:"n"`
	Seed int    `json:"seed"`
}

type c19Case struct {
	Engine  string
	Workers []c19Worker
	// ExpiryMs > 0: Event records expire natively after one second (the engine's timers fire while requests run); after
	// the workers have finished, light traffic on the Event keys continues for this long
	ExpiryMs int `json:"expiry_ms,omitempty"`
}

var c19Kinds = []string{"writer", "writer", "writer", "reader", "reader", "streamer", "watcher", "compactor", "compactor", "twincompactor", "locker", "describer", "faulty"}

func genC19(t *rapid.T) interface{} {
	c := &c19Case{Engine: EnvStr("VERIF_ENGINE", EngMem)}
	n := rapid.IntRange(4, 16).Draw(t, "nworkers")
	for i := 0; i < n; i++ {
		kind := rapid.SampledFrom(c19Kinds).Draw(t, "kind")
		if i < 2 && DrawBool(t, 50, "twoCompactors") {
			kind = "compactor" // concurrent compactions are part of the statement
		}
		if os.Getenv("VERIF_EXPIRY") != "" && i < 2 {
			kind = "writer"
		}
		c.Workers = append(c.Workers, c19Worker{
			Kind: kind,
			N:    rapid.IntRange(5, 60).Draw(t, "n"),
			Seed: rapid.IntRange(0, 1000).Draw(t, "seed"),
		})
	}
	if os.Getenv("VERIF_EXPIRY") != "" {
		c.ExpiryMs = rapid.SampledFrom([]int{1100, 1300}).Draw(t, "expiryMs")
	}
	return c
}

var raceLogSeen int64 // bytes of the race log already attributed

func raceLogPath() string {
	for _, f := range strings.Fields(os.Getenv("GORACE")) {
		if strings.HasPrefix(f, "log_path=") {
			return strings.TrimPrefix(f, "log_path=") + "." + fmt.Sprint(os.Getpid())
		}
	}
	return ""
}

var raceFrameRe = regexp.MustCompile(`^\s+((?:github\.com/kubewharf/kubebrain/|github\.com/huandu/skiplist)\S*?)\(\)\s*$`)

// parseRaceReports returns signatures ("frameA <-> frameB") of reports that involve kubebrain code (or the skip list
// of the in-process engine) and the number of reports without such a frame
func parseRaceReports(text string) (sigs map[string]string, foreign int) {
	sigs = map[string]string{}
	blocks := strings.Split(text, "WARNING: DATA RACE")
	for _, b := range blocks[1:] {
		// split into the access stacks (stop before "Goroutine N (running) created at:")
		body := b
		if i := strings.Index(body, "Goroutine "); i >= 0 {
			body = body[:i]
		}
		var stacks [][]string
		var cur []string
		sc := bufio.NewScanner(strings.NewReader(body))
		for sc.Scan() {
			line := sc.Text()
			if strings.Contains(line, " by goroutine ") || strings.Contains(line, " by main goroutine") {
				if cur != nil {
					stacks = append(stacks, cur)
				}
				cur = []string{}
				continue
			}
			if m := raceFrameRe.FindStringSubmatch(line); m != nil && cur != nil {
				cur = append(cur, m[1])
			}
		}
		if cur != nil {
			stacks = append(stacks, cur)
		}
		var inner []string
		for _, s := range stacks {
			for _, f := range s {
				if !strings.Contains(f, "/verifhook") {
					inner = append(inner, f)
					break
				}
			}
		}
		if len(inner) == 0 {
			foreign++
			continue
		}
		sort.Strings(inner)
		sig := strings.Join(inner, " <-> ")
		if _, ok := sigs[sig]; !ok {
			rep := "WARNING: DATA RACE" + b
			if len(rep) > 6000 {
				rep = rep[:6000]
			}
			sigs[sig] = rep
		}
	}
	return sigs, foreign
}

func newRaceReports() (map[string]string, int, error) {
	p := raceLogPath()
	if p == "" {
		return nil, 0, nil
	}
	data, err := os.ReadFile(p)
	if err != nil {
		if os.IsNotExist(err) {
			return nil, 0, nil
		}
		return nil, 0, err
	}
	off := atomic.LoadInt64(&raceLogSeen)
	if int64(len(data)) <= off {
		return nil, 0, nil
	}
	atomic.StoreInt64(&raceLogSeen, int64(len(data)))
	sigs, foreign := parseRaceReports(string(data[off:]))
	return sigs, foreign, nil
}

var c19Keys = []string{"p/a", "p/b", "q/a", "events/default/e1", "p/a/x"}

func runC19(ci interface{}, st *CaseStats) error {
	c := ci.(*c19Case)
	backend.SetRetryIntervalsForVerif(3*time.Millisecond, time.Millisecond)
	defer backend.SetRetryIntervalsForVerif(5*time.Second, time.Second)
	eng, err := OpenEngine(c.Engine)
	if err != nil {
		return Inconclusivef("engine: %v", err)
	}
	shim := NewShim(eng.KV, false)
	var faultCtr int64
	shim.OnCommit = func(ci *CommitInfo) Decision {
		if ci.Client == 99 && atomic.AddInt64(&faultCtr, 1)%3 == 0 {
			return UncertainApplied
		}
		return Pass
	}
	// a small event cache wraps quickly (watches that start inside it read slots the sequencer is about to reuse)
	// skipped prefixes as the repeated --skip-key-prefix flag builds them: a slice with spare capacity
	skipped := append(make([]string, 0, 4), Prefix+"/skipped", Prefix+"/other")
	b := NewTestBackend(shim, BackendOpts{CacheSize: []int{4, 8, 64}[len(c.Workers)%3], Etcd: true, Skipped: skipped})
	defer func() {
		StopBackend(b)
		time.Sleep(time.Millisecond)
		eng.Close()
	}()
	st.Label("engine:" + c.Engine)
	keys := make([]string, len(c19Keys))
	for i, k := range c19Keys {
		keys[i] = FullKey(k)
	}
	if c.ExpiryMs > 0 {
		backend.SetEventsTTLForVerif(1)
		defer backend.SetEventsTTLForVerif(3600)
		keys = append(keys, FullKey("events/default/e2"), FullKey("events/kube-system/e3"))
	}
	end := backend.PrefixEnd([]byte(Prefix + "/"))
	var wg sync.WaitGroup
	type window struct {
		kind       string
		start, end time.Time
	}
	var wmu sync.Mutex
	var windows []window
	var panics []string
	var electors int32
	for wi, w := range c.Workers {
		wg.Add(1)
		go func(wi int, w c19Worker) {
			defer wg.Done()
			t0 := time.Now()
			defer func() {
				if r := recover(); r != nil {
					wmu.Lock()
					panics = append(panics, fmt.Sprintf("%s worker: %v", w.Kind, r))
					wmu.Unlock()
				}
				wmu.Lock()
				windows = append(windows, window{w.Kind, t0, time.Now()})
				wmu.Unlock()
			}()
			ctx := ClientCtx(wi)
			heads := map[string]uint64{}
			switch w.Kind {
			case "writer", "faulty":
				if w.Kind == "faulty" {
					ctx = ClientCtx(99)
				}
				for i := 0; i < w.N; i++ {
					key := keys[(w.Seed+i*7)%len(keys)]
					val := []byte(fmt.Sprintf("w%d-%d", wi, i))
					switch (w.Seed + i) % 4 {
					case 0:
						if r, err := b.Create(ctx, &proto.CreateRequest{Key: []byte(key), Value: val}); err == nil && r.Succeeded {
							heads[key] = r.Header.Revision
						}
					case 1, 2:
						r, err := b.Update(ctx, &proto.UpdateRequest{Kv: &proto.KeyValue{Key: []byte(key), Value: val, Revision: heads[key]}})
						if err == nil {
							if r.Succeeded {
								heads[key] = r.Header.Revision
							} else if r.Kv != nil {
								heads[key] = r.Kv.Revision
							}
						}
					default:
						if r, err := b.Delete(ctx, &proto.DeleteRequest{Key: []byte(key), Revision: heads[key]}); err == nil && r.Succeeded {
							delete(heads, key)
						}
					}
				}
			case "reader":
				for i := 0; i < w.N; i++ {
					switch (w.Seed + i) % 4 {
					case 0:
						_, _ = b.Get(ctx, &proto.GetRequest{Key: []byte(keys[i%len(keys)])})
					case 1:
						_, _ = b.List(ctx, &proto.RangeRequest{Key: []byte(Prefix + "/"), End: end, Limit: int64(i % 3)})
					case 2:
						_, _ = b.Count(ctx, &proto.CountRequest{Key: []byte(Prefix + "/"), End: end})
					default:
						_, _ = b.GetPartitions(ctx, &proto.ListPartitionRequest{Key: []byte(Prefix + "/"), End: end})
					}
				}
			case "streamer":
				for i := 0; i < w.N/4+1; i++ {
					ch, err := b.ListByStream(ctx, shimCoder.EncodeObjectKey([]byte(Prefix+"/"), 0), shimCoder.EncodeObjectKey(end, 0), 0)
					if err == nil {
						for range ch {
						}
					}
				}
			case "watcher":
				for i := 0; i < w.N*2; i++ {
					wctx, cancel := context.WithCancel(ctx)
					// start revisions: 0, above current, or inside the (small, wrapping) event cache
					var start uint64
					cur := b.GetCurrentRevision()
					switch (w.Seed + i) % 4 {
					case 0:
						start = 0
					case 1:
						start = cur + 1
					default:
						back := uint64((w.Seed*7 + i) % 8)
						if cur > InitRev+back {
							start = cur - back
						} else {
							start = InitRev + 1
						}
					}
					ch, err := b.Watch(wctx, Prefix+"/p/", start)
					if err == nil {
						to := time.After(time.Duration(50+(w.Seed+i)%400) * time.Microsecond)
					drain:
						for {
							select {
							case evs, ok := <-ch:
								if !ok {
									break drain
								}
								for _, e := range evs { // read what was delivered, as a client would
									_ = e.Revision
								}
							case <-to:
								break drain
							}
						}
					}
					cancel()
				}
			case "compactor":
				for i := 0; i < w.N/2+1; i++ {
					cur := b.GetCurrentRevision()
					lag := uint64((w.Seed + i) % 6)
					if cur > InitRev+lag {
						_, _ = b.Compact(ctx, cur-lag)
					}
					time.Sleep(time.Duration(w.Seed%3) * 100 * time.Microsecond)
				}
			case "twincompactor":
				// two compaction requests that start at the same instant (a client retrying, the background loop and an
				// explicit request): their first steps run side by side
				for i := 0; i < w.N/4+1; i++ {
					cur := b.GetCurrentRevision()
					if cur <= InitRev+2 {
						time.Sleep(200 * time.Microsecond)
						continue
					}
					var tw sync.WaitGroup
					gate := make(chan struct{})
					for j := 0; j < 2; j++ {
						tw.Add(1)
						go func(j int) {
							defer tw.Done()
							<-gate
							_, _ = b.Compact(ctx, cur-uint64(j))
						}(j)
					}
					close(gate)
					tw.Wait()
				}
			case "describer":
				// what request handlers do on every rejected write / follower read: read the lock description
				rl := b.GetResourceLock()
				for i := 0; i < w.N; i++ {
					_ = rl.Describe()
					_ = rl.Identity()
				}
			case "locker":
				// the node's single elector
				if atomic.AddInt32(&electors, 1) > 1 {
					return
				}
				rl := b.GetResourceLock()
				for i := 0; i < w.N/5+1; i++ {
					now := metav1.NewTime(time.Unix(1000000000+int64(i), 0))
					rec := resourcelock.LeaderElectionRecord{HolderIdentity: fmt.Sprintf("w%d", wi), LeaseDurationSeconds: 8, AcquireTime: now, RenewTime: now}
					if _, err := rl.Get(); err != nil {
						_ = rl.Create(rec)
					} else {
						_ = rl.Update(rec)
					}
					_ = rl.Describe()
				}
			}
		}(wi, w)
	}
	done := make(chan struct{})
	go func() { wg.Wait(); close(done) }()
	select {
	case <-done:
	case <-time.After(120 * time.Second):
		return Inconclusivef("workload did not finish in 120s")
	}
	if c.ExpiryMs > 0 {
		// the engine's expiry timers fire about a second after each Event write; keep the store busy meanwhile
		st.Label("native-expiry-while-busy")
		until := time.Now().Add(time.Duration(c.ExpiryMs) * time.Millisecond)
		for i := 0; time.Now().Before(until); i++ {
			k := keys[i%len(keys)]
			_, _ = b.Get(context.Background(), &proto.GetRequest{Key: []byte(k)})
			_, _ = b.Create(context.Background(), &proto.CreateRequest{Key: []byte(k), Value: []byte("tail")})
			_, _ = b.List(context.Background(), &proto.RangeRequest{Key: []byte(Prefix + "/"), End: end})
			time.Sleep(2 * time.Millisecond)
		}
	}
	// let the background retry loop work on what the faulty writers left
	deadline := time.Now().Add(2 * time.Second)
	for backend.RetryQueueLenForVerif(b) > 0 && time.Now().Before(deadline) {
		time.Sleep(time.Millisecond)
	}
	if len(panics) > 0 {
		return fmt.Errorf("a request panicked under concurrency: %s", strings.Join(panics, "; "))
	}
	// which different request kinds overlapped in time
	pairs := map[string]bool{}
	for i := range windows {
		for j := range windows {
			if i < j && windows[i].kind != windows[j].kind && windows[i].start.Before(windows[j].end) && windows[j].start.Before(windows[i].end) {
				a, bb := windows[i].kind, windows[j].kind
				if a > bb {
					a, bb = bb, a
				}
				pairs[a+"+"+bb] = true
			}
		}
	}
	for p := range pairs {
		st.Label("overlap:" + p)
	}
	sigs, foreign, err := newRaceReports()
	if err != nil {
		return Inconclusivef("race log: %v", err)
	}
	if foreign > 0 {
		st.Count("reports_without_kubebrain_frame", foreign)
	}
	if len(sigs) > 0 {
		var keysS []string
		for s := range sigs {
			keysS = append(keysS, s)
		}
		sort.Strings(keysS)
		return fmt.Errorf("the race detector reported %d distinct data race(s) in kubebrain code: %s\nfirst report:\n%s", len(sigs), strings.Join(keysS, " | "), sigs[keysS[0]])
	}
	if len(pairs) > 0 {
		st.Nontrivial()
	}
	return nil
}

var specC19 = &Spec{
	ID:   "C19",
	Rule: "binary built with -race; case = 4..16 free-running goroutines, each one of: writer (create/update/delete with expectations from its own observations), reader (get / list / limited list / count / partitions), streamer (range stream), watcher (open, drain, cancel), compactor (compaction trailing by 0..5 revisions), twin compactor (two compaction requests released at the same instant), locker (the node's single elector: resource-lock get/create/update), describer (lock description reads, as request handlers do), faulty writer (every third commit answered 'outcome unknown' so that the background repair loop runs with 3 ms / 1 ms intervals), 5..60 operations each, on memkv and Badger; expiry shards set the Events TTL to 1 s, write Event keys and keep light traffic going for 1.1..1.3 s so that the engine's native expiry (memkv timers, Badger TTL) happens while requests run. Oracle = the race detector (GORACE=halt_on_error=0, reports read from its log after each case and reduced to the pair of innermost frames inside kubebrain or the in-process engine's skip list); a panic in a request is a violation too. Non-trivial = at least two different request kinds overlapped in time (measured from recorded windows); distinct = SHA-1 of the case",
	Gen:  genC19,
	New:  func() interface{} { return &c19Case{} },
	Run:  runC19,
	Assumptions: []string{
		"absence of reports is evidence only for the schedules that ran",
		"reports without a frame in kubebrain or its in-process engine (e.g. inside Badger or the TiKV mock) are counted, not judged",
	},
	Engines: []string{EngMem, EngBadger},
}

func TestC19(t *testing.T) { RunProperty(t, specC19) }

var _ = filepath.Join
