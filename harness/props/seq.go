package props

// Sequential history executor: applies generated writes/reads to a real backend and to the reference model,
// judging every response. Shared by C03, C07, C08, C12, C13, C15, C17.

import (
	"bytes"
	"context"
	"fmt"
	"math"
	"strings"
	"time"

	proto "github.com/kubewharf/kubebrain-client/api/v2rpc"

	"github.com/kubewharf/kubebrain/pkg/backend"
	"github.com/kubewharf/kubebrain/pkg/storage"
)

// WOp is one generated write
type WOp struct {
	Kind string `json:"op"`            // create | update | delete
	K    int    `json:"key"`           // index into the key pool
	V    int    `json:"val,omitempty"` // value class
	Exp  string `json:"exp,omitempty"` // expected-revision class: ok stale other zero same future far max half
	// Lease is passed through in the request (the etcd API forwards the lease id of a put); it must have no effect:
	// expiry is governed by the key being an Event and the configured TTL only
	Lease int64 `json:"lease,omitempty"`
}

// ExpClasses are the expected-revision classes of guarded writes
var ExpClasses = []string{"ok", "ok", "ok", "stale", "other", "zero", "same", "future", "far", "max", "half"}

// KeyFamilies: prefix-related raw keys (under Prefix)
var KeyFamilies = []string{"a", "a/b", "a-b", "a.b", "ab", "a/b/c", "b", "a/", "a0", "b/a", "a/b0", "aa"}

// WriteRes is the normalised outcome of a write
type WriteRes struct {
	Op      string
	Key     string
	Exp     uint64
	Outcome string // ok | fail | err
	Rev     uint64 // header revision (0 on error)
	HasKv   bool
	KvRev   uint64
	KvVal   []byte
	Err     string
}

// SeqEnv is a backend + model pair driven sequentially
type SeqEnv struct {
	Eng      *EngineHandle
	KV       storage.KvStorage
	Shim     *Shim
	B        backend.Backend
	M        *Model
	Keys     []string
	Attempts int
	LastRev  uint64
	Init     uint64
	Ctx      context.Context
	// Strict: an unexpected error from a write is a violation (default true)
	TolerateErr func(op WOp, err error) bool
	Transcript  []string
}

// SeqOpts configures NewSeqEnv
type SeqOpts struct {
	Engine    string
	UseShim   bool
	Keys      []string
	Backend   BackendOpts
	SplitKeys [][]byte
	// MetricsOutside puts pkg/storage/metrics between the backend and the shim (production order with
	// --enable-storage-metrics: the backend talks to the wrapper, faults happen below it)
	MetricsOutside bool
}

// NewSeqEnv opens an engine and a backend over it
func NewSeqEnv(o SeqOpts) (*SeqEnv, error) {
	eng, err := OpenEngine(o.Engine, o.SplitKeys...)
	if err != nil {
		return nil, err
	}
	e := &SeqEnv{Eng: eng, KV: eng.KV, M: NewModel(), Keys: o.Keys, Ctx: context.Background()}
	if o.UseShim {
		e.Shim = NewShim(eng.KV, strings.Contains(o.Engine, EngMem))
		e.KV = e.Shim
		if o.MetricsOutside {
			e.KV = imetricsNew(e.Shim)
		}
	}
	e.B = NewTestBackend(e.KV, o.Backend)
	e.Init = o.Backend.Init
	if e.Init == 0 {
		e.Init = InitRev
	}
	e.LastRev = e.Init
	return e, nil
}

// Close stops the backend and closes the engine
func (e *SeqEnv) Close() {
	if e.B != nil {
		StopBackend(e.B)
		// give the sequencer a moment to observe the stop before the engine goes away
		time.Sleep(200 * time.Microsecond)
	}
	if e.Eng != nil {
		e.Eng.Close()
	}
}

// MakeValue builds the value of class v for the n-th attempt (always non-empty, never the reserved marker)
func MakeValue(v int, n int) []byte {
	switch v % 8 {
	case 0:
		return []byte(fmt.Sprintf("v%d", n))
	case 1:
		return []byte(fmt.Sprintf("%08d", n%100000000)) // 8 bytes, shaped like a live index record
	case 2:
		return []byte(fmt.Sprintf("%09d", n%1000000000)) // 9 bytes, shaped like a deleted index record
	case 3:
		return []byte("placeholder") // memkv's iterator sentinel value
	case 4:
		return append([]byte{0, 0xff, '$', 0}, []byte(fmt.Sprintf("%d", n))...)
	case 5:
		return bytes.Repeat([]byte(fmt.Sprintf("%d.", n)), 700) // multi-KB
	case 6:
		return []byte{byte('a' + n%26)}
	default:
		return []byte(fmt.Sprintf("tombstone%d", n)) // marker look-alike, not the marker
	}
}

// ResolveExp maps an expected-revision class to a concrete revision using the model
func (e *SeqEnv) ResolveExp(op WOp, key string) (exp uint64, future bool) {
	next := e.LastRev + 1
	switch op.Exp {
	case "", "ok":
		if v, ok := e.M.Live(key); ok {
			return v.Rev, false
		}
		if v, ok := e.M.Latest(key); ok {
			return v.Rev, false // revision of the deletion: must not match
		}
		return e.Init, false
	case "stale":
		vs := e.M.Keys[key]
		if len(vs) >= 2 {
			return vs[len(vs)-2].Rev, false
		}
		return e.Init, false
	case "other":
		for _, k := range e.Keys {
			if k == key {
				continue
			}
			if v, ok := e.M.Live(k); ok {
				if cur, ok2 := e.M.Live(key); !ok2 || cur.Rev != v.Rev {
					return v.Rev, false
				}
			}
		}
		return e.Init, false
	case "zero":
		return 0, false
	case "same":
		return next, true
	case "future":
		return next + 1, true
	case "far":
		return next + 1<<40, true
	case "max":
		return math.MaxUint64, true
	case "half":
		return 1 << 63, true
	}
	return 0, false
}

func kvOf(kv *proto.KeyValue) string {
	if kv == nil {
		return "nil"
	}
	v := kv.Value
	if len(v) > 24 {
		v = append(append([]byte{}, v[:24]...), []byte(fmt.Sprintf("...(%d)", len(kv.Value)))...)
	}
	return fmt.Sprintf("{%q %q @%d}", kv.Key, v, kv.Revision)
}

// DoWrite executes one write, judges the response against the model and updates the model
func (e *SeqEnv) DoWrite(op WOp) (*WriteRes, error) {
	key := e.Keys[op.K%len(e.Keys)]
	e.Attempts++
	val := MakeValue(op.V, e.Attempts)
	res := &WriteRes{Op: op.Kind, Key: key}
	live, isLive := e.M.Live(key)
	var (
		hdr       *proto.ResponseHeader
		succeeded bool
		kv        *proto.KeyValue
		err       error
		expect    string // ok | fail | rejected
	)
	exp, future := uint64(0), false
	switch op.Kind {
	case "create":
		var r *proto.CreateResponse
		r, err = e.B.Create(e.Ctx, &proto.CreateRequest{Key: []byte(key), Value: val, Lease: op.Lease})
		if r != nil {
			hdr, succeeded = r.Header, r.Succeeded
		}
		expect = "ok"
		if isLive {
			expect = "fail"
		}
	case "update":
		exp, future = e.ResolveExp(op, key)
		var r *proto.UpdateResponse
		r, err = e.B.Update(e.Ctx, &proto.UpdateRequest{Kv: &proto.KeyValue{Key: []byte(key), Value: val, Revision: exp}, Lease: op.Lease})
		if r != nil {
			hdr, succeeded, kv = r.Header, r.Succeeded, r.Kv
		}
		switch {
		case exp == 0 && !isLive:
			expect = "ok"
		case exp == 0:
			expect = "fail"
		case future:
			expect = "rejected"
		case isLive && live.Rev == exp:
			expect = "ok"
		default:
			expect = "fail"
		}
	case "delete":
		exp, future = e.ResolveExp(op, key)
		var r *proto.DeleteResponse
		r, err = e.B.Delete(e.Ctx, &proto.DeleteRequest{Key: []byte(key), Revision: exp})
		if r != nil {
			hdr, succeeded, kv = r.Header, r.Succeeded, r.Kv
		}
		switch {
		case !isLive:
			expect = "fail"
		case exp == 0:
			expect = "ok"
		case future:
			expect = "rejected"
		case live.Rev == exp:
			expect = "ok"
		default:
			expect = "fail"
		}
	default:
		return nil, fmt.Errorf("harness: unknown write kind %q", op.Kind)
	}
	res.Exp = exp
	desc := fmt.Sprintf("%s(%q, exp=%d[%s])", op.Kind, key, exp, op.Exp)

	if err != nil {
		res.Outcome, res.Err = "err", err.Error()
		e.LastRev++ // the attempt consumed a revision
		if expect != "rejected" {
			if e.TolerateErr != nil && e.TolerateErr(op, err) {
				e.Transcript = append(e.Transcript, fmt.Sprintf("%s -> err(tolerated)", desc))
				return res, nil
			}
			return res, fmt.Errorf("%s returned error %q, model expects %s", desc, err, expect)
		}
		e.Transcript = append(e.Transcript, fmt.Sprintf("%s -> rejected", desc))
		return res, nil
	}
	if hdr == nil {
		return res, fmt.Errorf("%s returned neither error nor header", desc)
	}
	res.Rev = hdr.Revision
	if kv != nil {
		res.HasKv, res.KvRev, res.KvVal = true, kv.Revision, kv.Value
		if hdr.Revision < kv.Revision {
			return res, fmt.Errorf("%s: header revision %d < revision %d of returned kv", desc, hdr.Revision, kv.Revision)
		}
	}
	if succeeded {
		res.Outcome = "ok"
		if expect != "ok" {
			return res, fmt.Errorf("%s succeeded at revision %d, model expects %s (live=%v rev=%d)", desc, hdr.Revision, expect, isLive, live.Rev)
		}
		if hdr.Revision <= e.LastRev {
			return res, fmt.Errorf("%s got revision %d, not greater than an earlier revision %d", desc, hdr.Revision, e.LastRev)
		}
		if mx := e.M.MaxRev(); hdr.Revision <= mx {
			return res, fmt.Errorf("%s got revision %d <= stored revision %d", desc, hdr.Revision, mx)
		}
		switch op.Kind {
		case "create":
			e.M.ApplyPut(key, val, hdr.Revision, true)
		case "update":
			e.M.ApplyPut(key, val, hdr.Revision, exp == 0)
		case "delete":
			if kv == nil || !bytes.Equal(kv.Value, live.Val) || kv.Revision != live.Rev || !bytes.Equal(kv.Key, []byte(key)) {
				return res, fmt.Errorf("%s succeeded but returned previous kv %s, model has {%q @%d}", desc, kvOf(kv), live.Val, live.Rev)
			}
			e.M.ApplyDelete(key, hdr.Revision)
		}
		e.LastRev = hdr.Revision
		e.Transcript = append(e.Transcript, fmt.Sprintf("%s -> ok @+%d", desc, hdr.Revision-e.Init))
		return res, nil
	}
	res.Outcome = "fail"
	if expect == "ok" {
		return res, fmt.Errorf("%s reported a failed condition (kv %s), model expects success (live=%v rev=%d)", desc, kvOf(kv), isLive, live.Rev)
	}
	if hdr.Revision > e.LastRev {
		e.LastRev = hdr.Revision
	} else {
		e.LastRev++
	}
	// failure branch content
	switch op.Kind {
	case "update", "delete":
		if op.Kind == "delete" && !isLive {
			if kv != nil && len(kv.Value) != 0 {
				return res, fmt.Errorf("%s on an absent key returned kv %s", desc, kvOf(kv))
			}
		} else if isLive {
			if kv == nil || !bytes.Equal(kv.Value, live.Val) || kv.Revision != live.Rev {
				return res, fmt.Errorf("%s failed and returned kv %s, model has {%q @%d}", desc, kvOf(kv), live.Val, live.Rev)
			}
		} else if kv != nil && len(kv.Value) != 0 {
			return res, fmt.Errorf("%s failed on an absent key but returned kv %s", desc, kvOf(kv))
		}
	}
	e.Transcript = append(e.Transcript, fmt.Sprintf("%s -> fail kv=%v", desc, res.HasKv))
	return res, nil
}

// Settle waits until the backend's read revision has reached every revision handed out so far
func (e *SeqEnv) Settle() error {
	if !WaitCommitted(e.B, e.LastRev, 10*time.Second) {
		// LastRev may over-estimate after tolerated errors; accept the highest stored revision instead
		if mx := e.M.MaxRev(); e.B.GetCurrentRevision() >= mx && mx > 0 {
			return nil
		}
		return fmt.Errorf("read revision stuck at %d, revisions up to %d were handed out", e.B.GetCurrentRevision(), e.LastRev)
	}
	return nil
}

func sameKVs(got []*proto.KeyValue, want []MKV) string {
	if len(got) != len(want) {
		return fmt.Sprintf("got %d kvs, want %d", len(got), len(want))
	}
	for i := range got {
		if string(got[i].Key) != want[i].Key {
			return fmt.Sprintf("kv[%d] key %q, want %q", i, got[i].Key, want[i].Key)
		}
		if !bytes.Equal(got[i].Value, want[i].Val) {
			return fmt.Sprintf("kv[%d] %q value %q, want %q", i, got[i].Key, got[i].Value, want[i].Val)
		}
		if got[i].Revision != want[i].Rev {
			return fmt.Sprintf("kv[%d] %q revision %d, want %d", i, got[i].Key, got[i].Revision, want[i].Rev)
		}
	}
	return ""
}

func fmtKVs(kvs []*proto.KeyValue) string {
	var sb strings.Builder
	for _, kv := range kvs {
		sb.WriteString(kvOf(kv))
	}
	return sb.String()
}

func fmtMKVs(kvs []MKV) string {
	var sb strings.Builder
	for _, kv := range kvs {
		v := kv.Val
		if len(v) > 24 {
			v = v[:24]
		}
		sb.WriteString(fmt.Sprintf("{%q %q @%d}", kv.Key, v, kv.Rev))
	}
	return sb.String()
}

// CheckGet performs a point read at rev (0 = latest) and compares it with the model
func (e *SeqEnv) CheckGet(key string, rev uint64) (string, error) {
	r, err := e.B.Get(e.Ctx, &proto.GetRequest{Key: []byte(key), Revision: rev})
	if err != nil {
		return "", fmt.Errorf("Get(%q,%d) returned error %v", key, rev, err)
	}
	var want MVersion
	var ok bool
	if rev == 0 {
		want, ok = e.M.Live(key)
	} else {
		want, ok = e.M.At(key, rev)
	}
	if !ok {
		if r.Kv != nil {
			return "", fmt.Errorf("Get(%q,%d) returned %s, model says absent", key, rev, kvOf(r.Kv))
		}
		return "absent", nil
	}
	if r.Kv == nil {
		return "", fmt.Errorf("Get(%q,%d) returned nothing, model has {%q @%d}", key, rev, want.Val, want.Rev)
	}
	if !bytes.Equal(r.Kv.Value, want.Val) || r.Kv.Revision != want.Rev || string(r.Kv.Key) != key {
		return "", fmt.Errorf("Get(%q,%d) returned %s, model has {%q @%d}", key, rev, kvOf(r.Kv), want.Val, want.Rev)
	}
	if r.Header == nil || r.Header.Revision < r.Kv.Revision {
		return "", fmt.Errorf("Get(%q,%d): header %v < kv revision %d", key, rev, r.Header, r.Kv.Revision)
	}
	return fmt.Sprintf("%q@+%d", want.Val, want.Rev-e.Init), nil
}

// CheckList performs a range read and compares it with the model; returns a digest of the answer
func (e *SeqEnv) CheckList(start, end []byte, rev uint64, limit int64) (string, error) {
	cur := e.B.GetCurrentRevision()
	r, err := e.B.List(e.Ctx, &proto.RangeRequest{Key: start, End: end, Revision: rev, Limit: limit})
	if err != nil {
		return "", fmt.Errorf("List([%q,%q),rev=%d,limit=%d) returned error %v", start, end, rev, limit, err)
	}
	use := rev
	if use == 0 {
		use = cur
	}
	want, more := e.M.Range(start, end, use, int(limit))
	if d := sameKVs(r.Kvs, want); d != "" {
		return "", fmt.Errorf("List([%q,%q),rev=%d(%d),limit=%d): %s\n got  %s\n want %s", start, end, rev, use, limit, d, fmtKVs(r.Kvs), fmtMKVs(want))
	}
	if r.More != more {
		return "", fmt.Errorf("List([%q,%q),rev=%d,limit=%d): more=%v, want %v (%d kvs)", start, end, rev, limit, r.More, more, len(want))
	}
	for _, kv := range r.Kvs {
		if r.Header == nil || r.Header.Revision < kv.Revision {
			return "", fmt.Errorf("List: header %v < kv revision %d", r.Header, kv.Revision)
		}
	}
	return fmt.Sprintf("%d kvs more=%v %s", len(want), more, fmtMKVs(want)), nil
}

// CheckCount compares Count (served at the current revision) with the model
func (e *SeqEnv) CheckCount(start, end []byte) error {
	cur := e.B.GetCurrentRevision()
	r, err := e.B.Count(e.Ctx, &proto.CountRequest{Key: start, End: end})
	if err != nil {
		return fmt.Errorf("Count([%q,%q)) returned error %v", start, end, err)
	}
	want, _ := e.M.Range(start, end, cur, 0)
	if int(r.Count) != len(want) {
		return fmt.Errorf("Count([%q,%q)) = %d at revision %d, model has %d", start, end, r.Count, cur, len(want))
	}
	return nil
}

// FullKey prefixes a family name with the backend prefix
func FullKey(name string) string { return Prefix + "/" + name }
