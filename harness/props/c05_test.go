package props

import (
	"context"
	"fmt"
	"strings"
	"sync"
	"testing"
	"time"

	"pgregory.net/rapid"

	proto "github.com/kubewharf/kubebrain-client/api/v2rpc"

	"github.com/kubewharf/kubebrain/pkg/verifhook"
)

// C05 — a watch delivers exactly the matching changes, once, in order — or is closed

type c05Watch struct {
	PrefixSel int    `json:"prefix"`
	StartSel  string `json:"start"` // below | inside | newest | next | above | zero
	Off       int    `json:"off"`
	Speed     string `json:"speed"` // prompt | lagging | end
}

type c05Action struct {
	Kind string `json:"a"` // write | seq | watch | consume
	W    *WOp   `json:"w,omitempty"`
	I    int    `json:"i,omitempty"`
	N    int    `json:"n,omitempty"`
}

type c05Case struct {
	CacheSize int
	Watches   []c05Watch
	Actions   []c05Action
}

var c05Keys = []string{"p/a", "p/b", "q/a", "q/b", "p/a/x"}
var c05Prefixes = []string{Prefix + "/", Prefix + "/p/", Prefix + "/q/", Prefix + "/p/a"}
var c05ExpClasses = []string{"ok", "ok", "ok", "ok", "stale", "other", "zero"}

func genC05(t *rapid.T) interface{} {
	c := &c05Case{CacheSize: rapid.SampledFrom([]int{1, 2, 3, 5, 8, 64}).Draw(t, "cache")}
	nw := rapid.IntRange(1, 3).Draw(t, "nwatches")
	for i := 0; i < nw; i++ {
		c.Watches = append(c.Watches, c05Watch{
			PrefixSel: DrawIntn(t, len(c05Prefixes), "prefix"),
			StartSel:  rapid.SampledFrom([]string{"below", "inside", "inside", "inside", "newest", "next", "above", "zero"}).Draw(t, "start"),
			Off:       rapid.IntRange(0, 6).Draw(t, "off"),
			Speed:     rapid.SampledFrom([]string{"prompt", "lagging", "end"}).Draw(t, "speed"),
		})
	}
	na := rapid.IntRange(6, 50).Draw(t, "nactions")
	for i := 0; i < na; i++ {
		k := rapid.IntRange(0, 9).Draw(t, "kind")
		switch {
		case i < 2 || k < 4:
			kind := rapid.SampledFrom([]string{"create", "create", "update", "update", "update", "delete", "delete"}).Draw(t, "op")
			op := &WOp{Kind: kind, K: DrawIntn(t, len(c05Keys), "key"), V: rapid.IntRange(0, 7).Draw(t, "val")}
			if kind != "create" {
				op.Exp = rapid.SampledFrom(c05ExpClasses).Draw(t, "exp")
			}
			c.Actions = append(c.Actions, c05Action{Kind: "write", W: op})
		case k < 7:
			c.Actions = append(c.Actions, c05Action{Kind: "seq"})
		case k < 9:
			c.Actions = append(c.Actions, c05Action{Kind: "watch", I: DrawIntn(t, nw, "wi")})
		default:
			c.Actions = append(c.Actions, c05Action{Kind: "consume", I: DrawIntn(t, nw, "ci"), N: rapid.IntRange(1, 3).Draw(t, "n")})
		}
	}
	return c
}

func c05Window(d *WatchDriver, size int) []uint64 {
	adds := d.CacheAdds
	if len(adds) > size {
		adds = adds[len(adds)-size:]
	}
	return adds
}

func runC05(ci interface{}, st *CaseStats) error {
	c := ci.(*c05Case)
	keys := make([]string, len(c05Keys))
	for i, k := range c05Keys {
		keys[i] = FullKey(k)
	}
	env, err := NewSeqEnv(SeqOpts{Engine: EngMem, Keys: keys, Backend: BackendOpts{CacheSize: c.CacheSize}})
	if err != nil {
		return Inconclusivef("engine: %v", err)
	}
	d := NewWatchDriver(env.B)
	closed := false
	closeAll := func() {
		if !closed {
			closed = true
			d.Close()
			env.Close()
		}
	}
	defer closeAll()
	ctx, cancel := context.WithCancel(context.Background())
	defer cancel()
	st.Labelf("cache:%d", c.CacheSize)
	watches := make([]*DrivenWatch, len(c.Watches))
	raced := false
	wrapped := false
	failedWrite := false
	startWatch := func(i int) {
		w := c.Watches[i]
		win := c05Window(d, c.CacheSize)
		committed := env.B.GetCurrentRevision()
		var s uint64
		switch w.StartSel {
		case "zero":
			s = 0
		case "below":
			if len(win) > 0 && win[0] > uint64(w.Off)+1 {
				s = win[0] - 1 - uint64(w.Off)
			} else {
				s = env.Init + 1
			}
		case "inside":
			if len(win) > 0 {
				s = win[w.Off%len(win)]
			} else {
				s = committed
			}
		case "newest":
			if len(win) > 0 {
				s = win[len(win)-1]
			} else {
				s = committed
			}
		case "next":
			if len(win) > 0 {
				s = win[len(win)-1] + 1
			} else {
				s = committed + 1
			}
		default:
			s = committed + 1 + uint64(w.Off)
		}
		watches[i] = d.StartWatch(c05Prefixes[w.PrefixSel%len(c05Prefixes)], s)
		st.Label("start:" + w.StartSel)
	}
	consumeSpeed := func() {
		for i, w := range watches {
			if w != nil && w.isDone(d) && c.Watches[i].Speed == "prompt" {
				w.Consume(-1, 200*time.Microsecond)
			}
		}
	}
	for ai, a := range c.Actions {
		switch a.Kind {
		case "write":
			res, err := env.DoWrite(*a.W)
			if err != nil {
				return fmt.Errorf("action %d: %v", ai, err)
			}
			if res.Outcome != "ok" {
				failedWrite = true
			}
			if err := d.NoteWrite(env.LastRev); err != nil {
				return Inconclusivef("action %d: %v", ai, err)
			}
		case "seq":
			name, err := d.StepSeq()
			if err != nil {
				return Inconclusivef("action %d: %v", ai, err)
			}
			if name != "" {
				for _, w := range watches {
					if w != nil && !w.isDone(d) && len(w.Stages) > 0 {
						raced = true // the sequencer moved while a Watch call was in progress
					}
				}
			}
			if len(d.CacheAdds) > c.CacheSize {
				wrapped = true
			}
		case "watch":
			i := a.I % len(c.Watches)
			if watches[i] == nil {
				startWatch(i)
			}
			if err := d.Advance(watches[i], ctx); err != nil {
				return Inconclusivef("action %d: %v", ai, err)
			}
		case "consume":
			i := a.I % len(c.Watches)
			if w := watches[i]; w != nil && w.isDone(d) {
				w.Consume(a.N, 200*time.Microsecond)
			}
		}
		consumeSpeed()
	}
	// finish every watch call, then fence each watch
	for i := range c.Watches {
		if watches[i] == nil {
			startWatch(i)
		}
		if err := d.Finish(watches[i], ctx); err != nil {
			return Inconclusivef("finishing watch %d: %v", i, err)
		}
	}
	fenceKeys := make([]string, len(watches))
	for i, w := range watches {
		// the fence must itself be at or above the watch's start revision: pad with further writes if needed
		for n := 0; ; n++ {
			fk := w.Prefix + "~fence" + fmt.Sprint(i) + "." + fmt.Sprint(n)
			fenceKeys[i] = fk
			env.Keys = append(env.Keys, fk)
			res, err := env.DoWrite(WOp{Kind: "create", K: len(env.Keys) - 1})
			if err != nil {
				return fmt.Errorf("fence write: %v", err)
			}
			if err := d.NoteWrite(env.LastRev); err != nil {
				return Inconclusivef("fence: %v", err)
			}
			if res.Rev >= w.Start {
				break
			}
			if n > 64 {
				return Inconclusivef("could not place a fence above start revision %d", w.Start)
			}
		}
	}
	if err := d.Drain(); err != nil {
		return Inconclusivef("drain: %v", err)
	}
	for i, w := range watches {
		cw := c.Watches[i]
		if w.Panic != "" {
			return fmt.Errorf("watch %d (prefix %q from %d, cache %d): Watch panicked: %s", i, w.Prefix, w.Start, c.CacheSize, w.Panic)
		}
		if w.Err != nil {
			st.Label("watch:refused")
			continue
		}
		st.Label("watch:accepted")
		saw := w.ReadUntil(fenceKeys[i], 10*time.Second)
		if !saw && !w.Closed {
			// double check before calling it a silent stop
			saw = w.ReadUntil(fenceKeys[i], 10*time.Second)
			if !saw && !w.Closed {
				return fmt.Errorf("watch %d (prefix %q from %d): stream neither delivered the fence event nor was closed within 20s; received %d events", i, w.Prefix, w.Start, len(w.Received))
			}
		}
		// expected events of this watch
		var exp []MEvent
		for _, e := range env.M.Events {
			if strings.HasPrefix(e.Key, w.Prefix) && e.Key != fenceKeys[i] {
				if w.Start == 0 || e.Rev >= w.Start {
					exp = append(exp, e)
				}
			}
		}
		// drop the fence events of other watches that sort after this watch's own fence
		var ownFenceRev uint64
		for _, e := range env.M.Events {
			if e.Key == fenceKeys[i] {
				ownFenceRev = e.Rev
			}
		}
		var tmp []MEvent
		for _, e := range exp {
			if e.Rev < ownFenceRev {
				tmp = append(tmp, e)
			}
		}
		exp = tmp
		got := w.Received
		for j := 1; j < len(got); j++ {
			if got[j].Revision <= got[j-1].Revision {
				return fmt.Errorf("watch %d (prefix %q from %d): events out of order or duplicated: revision %d delivered after %d", i, w.Prefix, w.Start, got[j].Revision, got[j-1].Revision)
			}
		}
		if w.Start == 0 {
			// the stream is a gap-free run of the expected events that starts no later than the first event
			// broadcast after the subscription was in place
			if len(got) > 0 {
				first := -1
				for j, e := range exp {
					if e.Rev == got[0].Revision {
						first = j
					}
				}
				if first < 0 {
					return fmt.Errorf("watch %d (prefix %q from 0): first delivered event @%d is not a matching change", i, w.Prefix, got[0].Revision)
				}
				exp = exp[first:]
			} else {
				exp = nil
			}
			// required: everything broadcast after the subscription
			if w.SubscribedAtBroadcast >= 0 {
				need := map[uint64]bool{}
				cnt := 0
				_ = cnt
				for _, r := range d.BroadcastRevs[min(len(d.BroadcastRevs), broadcastOffset(d, w.SubscribedAtBroadcast)):] {
					need[r] = true
				}
				for _, e := range env.M.Events {
					if need[e.Rev] && strings.HasPrefix(e.Key, w.Prefix) && e.Rev < ownFenceRev && saw {
						found := false
						for _, g := range got {
							if g.Revision == e.Rev {
								found = true
							}
						}
						if !found {
							return fmt.Errorf("watch %d (prefix %q from 0): change @%d was broadcast after the subscription but never delivered", i, w.Prefix, e.Rev)
						}
					}
				}
			}
		}
		if saw {
			if err := compareEvents(got, exp); err != nil {
				return fmt.Errorf("watch %d (prefix %q from %d, cache %d, speed %s, stages %v): %v", i, w.Prefix, w.Start, c.CacheSize, cw.Speed, w.Stages, err)
			}
		} else {
			// closed early: what was delivered must be a prefix of the expected stream
			if len(got) > len(exp) {
				return fmt.Errorf("watch %d: delivered %d events, only %d expected", i, len(got), len(exp))
			}
			if err := compareEvents(got, exp[:len(got)]); err != nil {
				return fmt.Errorf("watch %d (closed early; prefix %q from %d): %v", i, w.Prefix, w.Start, err)
			}
			st.Label("watch:closed-early")
		}
		if len(got) > 0 {
			st.Label("watch:delivered")
		}
	}
	if raced {
		st.Label("write-lands-during-registration")
	}
	if wrapped {
		st.Label("cache-wrapped")
	}
	if (raced || wrapped) && failedWrite {
		st.Nontrivial()
	}
	return nil
}

// broadcastOffset maps "number of broadcasts released" to an index into BroadcastRevs
func broadcastOffset(d *WatchDriver, nBroadcasts int) int {
	// BroadcastRevs is flat; batch boundaries are not kept, so be conservative: one batch may still be in flight
	// when the subscription completes, hence require only what was released strictly later. The driver appends a
	// whole batch per release; reconstruct the prefix length by replaying the counts.
	if nBroadcasts <= 0 {
		return 0
	}
	if nBroadcasts >= len(d.batchEnds) {
		return len(d.BroadcastRevs)
	}
	return d.batchEnds[nBroadcasts-1]
}

func min(a, b int) int {
	if a < b {
		return a
	}
	return b
}

var _ = proto.Event_PUT

var specC05 = &Spec{
	ID:   "C05",
	Rule: "case = event-cache size in {1,2,3,5,8,64}, 1..3 watches (prefix among 4 nested/disjoint prefixes; start revision below / inside / at newest / newest+1 / above the cached window, or 0; consumer prompt / lagging / only at the end) and 6..50 actions: writer performs the next (possibly failing) write | sequencer takes one step (add one event to the cache, or broadcast the batch) | a Watch call advances one stage (subscribe -> cache read -> return) | a consumer reads n batches. Oracle = reference model events filtered by prefix and start: delivered stream strictly increasing, event-by-event equal (kind, key, value, previous value/revision on delete) to a prefix of the expected stream and to the whole stream up to a per-watch fence write if still open; for start 0 a gap-free run containing everything broadcast after subscription; a silent stop (neither fence nor close within 20 s) is a violation; refusals are allowed. Non-trivial = (a sequencer step landed while a Watch call was between its stages, or the cache wrapped) and the history has a failed write; distinct = SHA-1 of the case",
	Gen:  genC05,
	New:  func() interface{} { return &c05Case{} },
	Run:  runC05,
	Assumptions: []string{
		"hub fan-out and per-watch filtering goroutines run freely (FIFO channels); only registration stages and sequencer steps are scheduled",
		"overflow of the 10000-batch subscriber buffer is exercised by the separate slow-consumer mode",
	},
	Engines: []string{EngMem},
}

func TestC05(t *testing.T) { RunProperty(t, specC05) }

// ---------------------------------------------------------------------------------------------------------------
// slow consumer: the subscriber's 10000-batch buffer overflows; the hub must never let a later batch through

type c05SlowCase struct {
	DrainK     int  // batches the consumer drains while the hub is in its slow-subscriber branch
	MoreWrites int  // writes broadcast between the drop decision and the actual removal of the subscriber
	HoldDelete bool // hold the removal back until those writes were fanned out
}

func genC05Slow(t *rapid.T) interface{} {
	return &c05SlowCase{
		DrainK:     rapid.SampledFrom([]int{0, 1, 2, 5, 40, 150}).Draw(t, "drain"),
		MoreWrites: rapid.IntRange(0, 6).Draw(t, "more"),
		HoldDelete: DrawBool(t, 80, "hold"),
	}
}

func runC05Slow(ci interface{}, st *CaseStats) error {
	c := ci.(*c05SlowCase)
	keys := []string{FullKey("p/a"), FullKey("p/b")}
	env, err := NewSeqEnv(SeqOpts{Engine: EngMem, Keys: keys, Backend: BackendOpts{CacheSize: 64}})
	if err != nil {
		return Inconclusivef("engine: %v", err)
	}
	driverMu.Lock()
	defer driverMu.Unlock()
	slowHit := make(chan struct{}, 1)
	slowResume := make(chan struct{})
	delHit := make(chan struct{}, 1)
	delResume := make(chan struct{})
	var armed, slowSeen, delSeen int32
	var hmu sync.Mutex
	verifhook.Set(func(name string, owner interface{}, arg interface{}) {
		switch name {
		case "hub.slowBranch":
			hmu.Lock()
			first := slowSeen == 0
			slowSeen++
			hmu.Unlock()
			if first {
				slowHit <- struct{}{}
				<-slowResume
			}
		case "hub.deleteEntry":
			hmu.Lock()
			park := armed == 1 && delSeen == 0
			if park {
				delSeen++
			}
			hmu.Unlock()
			if park {
				delHit <- struct{}{}
				<-delResume
			}
		}
	})
	released := false
	defer func() {
		verifhook.Set(nil)
		if !released {
			close(delResume)
		}
		env.Close()
	}()
	ctx, cancel := context.WithCancel(context.Background())
	defer cancel()
	ch, err := env.B.Watch(ctx, Prefix+"/p/", 0)
	if err != nil {
		return fmt.Errorf("watch refused: %v", err)
	}
	var expected []uint64
	write := func(i int) error {
		op := WOp{Kind: "update", K: i % 2, Exp: "ok"}
		if i < 2 {
			op = WOp{Kind: "create", K: i}
		}
		res, err := env.DoWrite(op)
		if err != nil {
			return err
		}
		if res.Outcome != "ok" {
			return fmt.Errorf("write %d did not succeed", i)
		}
		expected = append(expected, res.Rev)
		if !WaitCommitted(env.B, res.Rev, 10*time.Second) {
			return Inconclusivef("write %d not committed", i)
		}
		return nil
	}
	overflow := false
	n := 0
	for ; n < 12500 && !overflow; n++ {
		if err := write(n); err != nil {
			return err
		}
		select {
		case <-slowHit:
			overflow = true
		default:
		}
	}
	if !overflow {
		select {
		case <-slowHit:
			overflow = true
		case <-time.After(2 * time.Second):
			return Inconclusivef("subscriber buffer did not overflow after %d single-event batches", n)
		}
	}
	st.Count("batches_until_overflow", n)
	// the hub is inside its slow-subscriber branch for this watcher; the consumer now drains a few batches
	var got []*proto.Event
	closedEarly := false
	for k := 0; k < c.DrainK && !closedEarly; k++ {
		select {
		case evs, ok := <-ch:
			if !ok {
				closedEarly = true
			} else {
				got = append(got, evs...)
			}
		case <-time.After(time.Second):
			k = c.DrainK
		}
	}
	time.Sleep(2 * time.Millisecond) // let the per-watch filter goroutine move batches into the freed slots
	hmu.Lock()
	if c.HoldDelete {
		armed = 1
	}
	hmu.Unlock()
	close(slowResume)
	if c.HoldDelete {
		select {
		case <-delHit:
		case <-time.After(5 * time.Second):
			return Inconclusivef("the slow subscriber's removal did not start")
		}
	}
	for i := 0; i < c.MoreWrites; i++ {
		if err := write(n + i); err != nil {
			return err
		}
	}
	time.Sleep(2 * time.Millisecond) // let the hub fan those out (if it is free to)
	if c.HoldDelete {
		close(delResume)
		released = true
	}
	// read to the end
	deadline := time.After(30 * time.Second)
	open := true
	for open {
		select {
		case evs, ok := <-ch:
			if !ok {
				open = false
			} else {
				got = append(got, evs...)
			}
		case <-deadline:
			return fmt.Errorf("slow subscriber was neither served nor closed within 30s after its buffer overflowed (received %d of %d events)", len(got), len(expected))
		}
	}
	// a stream never continues past an event it did not deliver: what arrived must be a gap-free prefix
	if len(got) > len(expected) {
		return fmt.Errorf("received %d events, only %d were written", len(got), len(expected))
	}
	for i, e := range got {
		if e.Revision != expected[i] {
			return fmt.Errorf("slow subscriber (drained %d batches during the drop, %d writes before removal): event %d has revision %d, expected %d — the stream continued past an event it did not deliver (received %d events, then closed)", c.DrainK, c.MoreWrites, i, e.Revision, expected[i], len(got))
		}
	}
	if len(got) == len(expected) {
		return fmt.Errorf("the subscriber overflowed its buffer but still received every event: the overflowing batch cannot have been delivered")
	}
	st.Label("overflow:closed-with-gap-free-prefix")
	if c.DrainK > 0 && c.MoreWrites > 0 && c.HoldDelete {
		st.Nontrivial()
	}
	return nil
}

var specC05Slow = &Spec{
	ID:      "C05",
	Rule:    "slow-consumer mode: one watch whose consumer does not read; the writer produces single-event batches until the hub reports the subscriber slow (10000 hub buffer + 100 result buffer + in flight); with the hub parked in its slow-subscriber branch the consumer drains k batches, the removal of the subscriber is held back (hook point) while m further writes are broadcast, then released. Oracle: the stream must end (close) and what was delivered must be a gap-free prefix of the written events. Non-trivial = k > 0, m > 0 and the removal held back; distinct = SHA-1 of (k, m, hold)",
	Gen:     genC05Slow,
	New:     func() interface{} { return &c05SlowCase{} },
	Run:     runC05Slow,
	Engines: []string{EngMem},
}

func TestC05Slow(t *testing.T) { RunProperty(t, specC05Slow) }
